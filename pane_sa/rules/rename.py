"""C20: structural clauses of field renaming.

What is decided here is the *shape* of the renaming code, not the algebra of str.lower / upper / title over all identifiers:

* C20-R1  rename_field applies the style's joiner to the split words of the *field* for every style; the name is returned
          unchanged only when no style is given (must-pass-through).
* C20-R2  each style's joiner, evaluated over a symbolic word list (first word / any later word), is the canonical form the
          property states: snake ``lower _ lower``, scream ``UPPER _ UPPER``, kebab ``lower - lower``, camel
          ``lower`` + ``Title``..., pascal ``Title``....
* C20-R3  writer / reader agreement of separators: every separator a joiner writes is one the splitter splits on, the
          separator pattern matches exactly one character (a doubled separator leaves an empty word), never a letter or digit;
          the case-boundary pattern distinguishes exactly the upper-case letters.
* C20-R4  refusal: an empty word after separator splitting raises ValueError before any word list is returned, and no caller
          in the renaming path catches it.
"""
from __future__ import annotations

import ast
import re
import string
import typing as t

try:                                     # Python >= 3.11
    import re._parser as sre_parse       # type: ignore[import-not-found]
    import re._constants as sre_const    # type: ignore[import-not-found]
except ImportError:                      # pragma: no cover
    import sre_parse                     # type: ignore[no-redef]
    import sre_constants as sre_const    # type: ignore[no-redef]

from ..cfg import CFG, Node, catches, cfg_of, exception_mro, handler_classes, walk_no_nested
from ..model import AnalysisError, FuncInfo, Model, unparse
from ..norm import Normalizer
from ..report import RuleResult

FIELD_MOD = 'pane.field'
RENAME = f'{FIELD_MOD}.rename_field'

# the canonical spellings of the property statement: (separator, case of the first word, case of every later word)
CANONICAL: t.Dict[str, t.Tuple[str, str, str]] = {
    'snake': ('_', 'lower', 'lower'),
    'scream': ('_', 'upper', 'upper'),
    'kebab': ('-', 'lower', 'lower'),
    'camel': ('', 'lower', 'title'),
    'pascal': ('', 'title', 'title'),
}

# str methods and the case they give a single alphabetic word (the property's words are alphabetic, so
# capitalize == title and casefold == lower on them)
# (casefold is not lower: 'ß'.casefold() == 'ss', final sigma folds to sigma - a lowercase word is changed by it)
CASE_METHODS = {'lower': 'lower', 'casefold': 'casefold', 'upper': 'upper', 'title': 'title', 'capitalize': 'title'}


class Anchors:
    """rename_field, the joiner table and the splitter, found from rename_field's own return expression."""

    def __init__(self, model: Model):
        self.model = model
        self.rename = model.func(RENAME)
        f = self.rename
        if len(f.params) < 2:
            raise AnalysisError(f"{f.loc()}: rename_field no longer takes (field, style)")
        self.p_field, self.p_style = f.params[0], f.params[1]
        self.cfg = cfg_of(model, f)
        self.nz = Normalizer(model, f, self.cfg)
        pat = re.compile(r'^(?P<table>[\w.]+)\[\$' + re.escape(self.p_style) + r'\]\((?P<arg>.*)\)$')
        # SPLIT(field) or SPLIT(field, <options>): the field name is the first argument
        self.arg_pat = re.compile(r'^(?P<split>[\w.]+)\(\$' + re.escape(self.p_field) + r'(, .*)?\)$')
        # (node, normal form, match, guards of conditional expressions the value sits in: [(literal, required truth)])
        self.returns: t.List[t.Tuple[Node, str, t.Optional[t.Match[str]]]] = []
        self.expr_guards: t.Dict[int, t.List[t.Tuple[str, bool]]] = {}

        def alts(e: ast.expr, n: Node, guards: t.List[t.Tuple[str, bool]]) -> t.Iterator[t.Tuple[ast.expr, t.List[t.Tuple[str, bool]]]]:
            if isinstance(e, ast.IfExp):
                text, pos = self.nz.literal(e.test, n)
                yield from alts(e.body, n, guards + [(text, pos)])
                yield from alts(e.orelse, n, guards + [(text, not pos)])
            else:
                yield e, guards
        # (every definition of a returned local counts as a returned value, at the node that assigns it: `result = field` /
        #  `result = TABLE[style](...)` / `return result`)
        from ..cfg import returned_values
        for (val_e, n) in returned_values(self.cfg):
            for (e, guards) in alts(t.cast(ast.expr, val_e), n, []):
                text = self.nz.expr(e, n)
                self.returns.append((n, text, pat.match(text)))
                self.expr_guards[len(self.returns) - 1] = guards
        apps = [m for (_n, _t, m) in self.returns if m]
        if not apps:
            raise AnalysisError(f"{f.loc()}: rename_field has no return of the form TABLE[style](SPLIT(field)); "
                                f"returns: {[tx for (_n, tx, _m) in self.returns]}")
        tables = {m.group('table') for m in apps}
        splits = {m2.group('split') for m2 in (self.arg_pat.match(m.group('arg')) for m in apps) if m2}
        if len(tables) != 1 or len(splits) > 1:
            raise AnalysisError(f"{f.loc()}: rename_field uses several joiner tables / splitters: {sorted(tables)} {sorted(splits)}")
        self.table_q = tables.pop()
        self.split_q = splits.pop() if splits else None
        mod, _, nm = self.table_q.rpartition('.')
        self.table = model.table(mod, nm)
        if not isinstance(self.table, ast.Dict):
            raise AnalysisError(f"{self.table_q} is not a dict display")
        self.table_mod = model.module(mod)
        self._splitter = model.func(self.split_q) if self.split_q else None

    @property
    def splitter(self) -> FuncInfo:
        if self._splitter is None:
            raise AnalysisError(f"{self.rename.loc()}: rename_field never applies a joiner to SPLIT(field); no splitter to analyse")
        return self._splitter

    def joiners(self) -> t.Dict[str, ast.expr]:
        out: t.Dict[str, ast.expr] = {}
        for k, v in zip(self.table.keys, self.table.values):      # type: ignore[attr-defined]
            if not (isinstance(k, ast.Constant) and isinstance(k.value, str)):
                raise AnalysisError(f"{self.table_q}: non-constant key {unparse(k) if k is not None else '**'}")
            out[k.value] = v
        return out


# ---------------------------------------------------------------------------------------------------------------------
# symbolic evaluation of a joiner over the word list [first, later, later, ...]

class Sym:
    pass


class Word(Sym):
    """One word of the list, with the case applied to it ('id' = as split)."""
    def __init__(self, case: str = 'id'):
        self.case = case

    def __repr__(self) -> str:
        return f"word.{self.case}"


class Part(Sym):
    """The first character ('head') or the remainder ('tail') of a word, with the case applied to it."""
    def __init__(self, which: str, case: str = 'id'):
        self.which, self.case = which, case

    def __repr__(self) -> str:
        return f"word.{self.which}.{self.case}"


def _merge_parts(items: t.List[Sym]) -> t.List[Sym]:
    """head + tail of one word is the word again, in the case the two pieces add up to."""
    out: t.List[Sym] = []
    for it in items:
        if out and isinstance(out[-1], Part) and out[-1].which == 'head' and isinstance(it, Part) and it.which == 'tail':
            h, tl = out[-1].case, it.case
            case = {('upper', 'lower'): 'title', ('upper', 'upper'): 'upper', ('lower', 'lower'): 'lower', ('id', 'id'): 'id'}.get(
                (h, tl), f"first character {h}, remainder {'unchanged' if tl == 'id' else tl}")
            out[-1] = Word(case)
        else:
            out.append(it)
    return out


class Lit(Sym):
    def __init__(self, s: str):
        self.s = s

    def __repr__(self) -> str:
        return repr(self.s)


class Seq(Sym):
    """A sequence of strings: the term of element 0 and the term of any later element (None = not in the sequence)."""
    def __init__(self, first: t.Optional[Sym], rest: t.Optional[Sym]):
        self.first, self.rest = first, rest

    def __repr__(self) -> str:
        return f"[{self.first}, {self.rest}...]"


class Enum(Sym):
    def __init__(self, seq: Seq):
        self.seq = seq


class Join(Sym):
    def __init__(self, sep: str, seq: Seq):
        self.sep, self.seq = sep, seq

    def __repr__(self) -> str:
        return f"{self.sep!r}.join({self.seq})"


class Cat(Sym):
    def __init__(self, items: t.List[Sym]):
        self.items = items

    def __repr__(self) -> str:
        return ' + '.join(map(repr, self.items))


class Opaque(Sym):
    def __init__(self, why: str):
        self.why = why

    def __repr__(self) -> str:
        return f"<{self.why}>"


class Index(Sym):
    """The position of the element being mapped: 'zero' or 'pos'."""
    def __init__(self, state: str):
        self.state = state


class Fn(Sym):
    def __init__(self, apply: t.Callable[[Sym], Sym]):
        self.apply = apply


def _case(term: t.Optional[Sym], c: str) -> t.Optional[Sym]:
    if term is None:
        return None
    if isinstance(term, Word):
        return Word(c)
    if isinstance(term, Part):
        return Part(term.which, 'upper' if (c == 'title' and term.which == 'head') else ('lower' if c == 'title' else c))
    if isinstance(term, Lit):
        return Lit({'lower': term.s.lower(), 'upper': term.s.upper(), 'title': term.s.title()}[c])
    if isinstance(term, Join):
        if c in ('lower', 'upper') or (term.sep and not any(ch.isalpha() for ch in term.sep)):
            sep = t.cast(Lit, _case(Lit(term.sep), c)).s
            return Join(sep, Seq(_case(term.seq.first, c), _case(term.seq.rest, c)))
        return Opaque(f"{c}() of a concatenation without separators")
    if isinstance(term, Cat):
        if c in ('lower', 'upper'):
            return Cat([t.cast(Sym, _case(i, c)) for i in term.items])
        return Opaque(f"{c}() of a concatenation")
    return Opaque(f"{c}() of {term!r}")


class JoinerEval:
    def __init__(self, model: Model, anchors: Anchors, style: str):
        self.model = model
        self.a = anchors
        self.style = style

    def fail(self, node: ast.AST, why: str) -> t.NoReturn:
        raise AnalysisError(f"{self.a.table_mod.relpath}:{getattr(node, 'lineno', 0)}: joiner of style '{self.style}': {why} "
                            f"(`{unparse(node)}`)")

    def function(self, fn: ast.expr) -> Sym:
        """Evaluate a joiner (lambda / module-level def) on the symbolic word list."""
        if isinstance(fn, ast.Lambda):
            if len(fn.args.args) != 1:
                self.fail(fn, "not a one-parameter function")
            return self.expr(fn.body, {fn.args.args[0].arg: Seq(Word(), Word())})
        q = self.model.resolve(fn, self.a.table_mod)
        f = self.model.functions.get(q or '')
        if f is None:
            self.fail(fn, "cannot resolve the joiner function")
        params = [p for p in f.params]
        if len(params) != 1:
            self.fail(fn, "not a one-parameter function")
        env: t.Dict[str, Sym] = {params[0]: Seq(Word(), Word())}
        body = [s for s in f.node.body if not (isinstance(s, ast.Expr) and isinstance(s.value, ast.Constant))]
        for st in body:
            if isinstance(st, ast.Assign) and len(st.targets) == 1 and isinstance(st.targets[0], ast.Name):
                if isinstance(st.value, (ast.List, ast.Tuple)) and not st.value.elts:
                    env[st.targets[0].id] = Seq(None, None)        # an accumulator, filled by the loop below
                else:
                    env[st.targets[0].id] = self.expr(st.value, env)
            elif isinstance(st, ast.AnnAssign) and isinstance(st.target, ast.Name) and st.value is not None:
                if isinstance(st.value, (ast.List, ast.Tuple)) and not st.value.elts:
                    env[st.target.id] = Seq(None, None)
                else:
                    env[st.target.id] = self.expr(st.value, env)
            elif isinstance(st, ast.For) and not st.orelse:
                # `for (i, w) in enumerate(parts): acc.append(E)` (E possibly chosen by an if / else on the position): acc = [E for ...]
                def appended(stmts: t.Sequence[ast.stmt]) -> t.Optional[t.Tuple[str, ast.expr]]:
                    if len(stmts) == 1 and isinstance(stmts[0], ast.Expr) and isinstance(stmts[0].value, ast.Call) \
                            and isinstance(stmts[0].value.func, ast.Attribute) and stmts[0].value.func.attr == 'append' \
                            and isinstance(stmts[0].value.func.value, ast.Name) and len(stmts[0].value.args) == 1:
                        return stmts[0].value.func.value.id, stmts[0].value.args[0]
                    if len(stmts) == 1 and isinstance(stmts[0], ast.If) and stmts[0].orelse:
                        a_, b_ = appended(stmts[0].body), appended(stmts[0].orelse)
                        if a_ and b_ and a_[0] == b_[0]:
                            return a_[0], ast.IfExp(test=stmts[0].test, body=a_[1], orelse=b_[1])
                    return None
                got = appended(st.body)
                if got is None or not (isinstance(env.get(got[0]), Seq) and t.cast(Seq, env[got[0]]).first is None and t.cast(Seq, env[got[0]]).rest is None):
                    self.fail(st, "loop form not supported by the joiner evaluator")
                env[got[0]] = self.map_over(self.expr(st.iter, env), st.target, got[1], env, st)
            elif isinstance(st, ast.Return) and st.value is not None:
                return self.expr(st.value, env)
            else:
                self.fail(st, "statement form not supported by the joiner evaluator")
        self.fail(f.node, "no return")

    def truth(self, test: ast.expr, env: t.Dict[str, Sym]) -> bool:
        if isinstance(test, ast.UnaryOp) and isinstance(test.op, ast.Not):
            return not self.truth(test.operand, env)
        if isinstance(test, ast.Name) and isinstance(env.get(test.id), Index):
            return t.cast(Index, env[test.id]).state == 'pos'
        if isinstance(test, ast.Compare) and len(test.ops) == 1:
            l, r_, op = test.left, test.comparators[0], test.ops[0]
            flip = {ast.Lt: ast.Gt, ast.Gt: ast.Lt, ast.LtE: ast.GtE, ast.GtE: ast.LtE}
            if isinstance(l, ast.Constant) and isinstance(r_, ast.Name):
                l, r_ = r_, l
                op = flip.get(type(op), type(op))()
            if isinstance(l, ast.Name) and isinstance(env.get(l.id), Index) and isinstance(r_, ast.Constant) and isinstance(r_.value, int) \
                    and not isinstance(r_.value, bool):
                zero = t.cast(Index, env[l.id]).state == 'zero'
                k = r_.value
                # decide i <op> k for i == 0, or for every i >= 1 (must be uniform)
                def holds(i: int) -> bool:
                    return {ast.Eq: i == k, ast.NotEq: i != k, ast.Lt: i < k, ast.LtE: i <= k, ast.Gt: i > k, ast.GtE: i >= k,
                            ast.Is: i == k, ast.IsNot: i != k}[type(op)](i) if False else \
                        {ast.Eq: i == k, ast.NotEq: i != k, ast.Lt: i < k, ast.LtE: i <= k, ast.Gt: i > k, ast.GtE: i >= k,
                         ast.Is: i == k, ast.IsNot: i != k}[type(op)]
                if type(op) not in (ast.Eq, ast.NotEq, ast.Lt, ast.LtE, ast.Gt, ast.GtE, ast.Is, ast.IsNot):
                    self.fail(test, "comparison not supported")
                if zero:
                    return holds(0)
                vals = {holds(i) for i in range(1, 64)}
                if len(vals) != 1:
                    raise _NonUniform(unparse(test))
                return vals.pop()
        if any(isinstance(x, ast.Name) and isinstance(env.get(x.id), (Word, Seq)) for x in ast.walk(test)):
            raise _NonUniform(f"{unparse(test)}: the case of a word depends on the words themselves, not on its position")
        self.fail(test, "condition is not a test of the word's position")

    def expr(self, e: ast.expr, env: t.Dict[str, Sym]) -> Sym:
        if isinstance(e, ast.Constant) and isinstance(e.value, str):
            return Lit(e.value)
        if isinstance(e, ast.Name):
            if e.id in env:
                return env[e.id]
            self.fail(e, "free name")
        if isinstance(e, ast.IfExp):
            return self.expr(e.body if self.truth(e.test, env) else e.orelse, env)
        if isinstance(e, (ast.GeneratorExp, ast.ListComp)):
            if len(e.generators) != 1 or e.generators[0].ifs or e.generators[0].is_async:
                self.fail(e, "comprehension with filters / several loops")
            g = e.generators[0]
            return self.map_over(self.expr(g.iter, env), g.target, e.elt, env, e)
        if isinstance(e, ast.Subscript):
            base = self.expr(e.value, env)
            if isinstance(base, Seq):
                sl = e.slice
                if isinstance(sl, ast.Constant) and sl.value == 0 and base.first is not None:
                    return base.first
                if isinstance(sl, ast.Slice) and sl.upper is None and sl.step is None and isinstance(sl.lower, ast.Constant):
                    if sl.lower.value == 1 and base.first is not None:
                        return Seq(None, base.rest)
                    if sl.lower.value in (0, None):
                        return base
                if isinstance(sl, ast.Slice) and sl.lower is None and sl.step is None and isinstance(sl.upper, ast.Constant) and sl.upper.value == 1 \
                        and base.first is not None:
                    return Seq(base.first, None)
            if isinstance(base, Word) and base.case == 'id':
                sl = e.slice
                if isinstance(sl, ast.Constant) and sl.value == 0:
                    return Part('head')
                if isinstance(sl, ast.Slice) and sl.step is None:
                    lo = sl.lower.value if isinstance(sl.lower, ast.Constant) else None if sl.lower is None else '?'
                    hi = sl.upper.value if isinstance(sl.upper, ast.Constant) else None if sl.upper is None else '?'
                    if lo in (None, 0) and hi == 1:
                        return Part('head')
                    if lo == 1 and hi is None:
                        return Part('tail')
            self.fail(e, "subscript not supported")
        if isinstance(e, (ast.List, ast.Tuple)):
            if len(e.elts) == 1 and not isinstance(e.elts[0], ast.Starred):
                return Seq(self.expr(e.elts[0], env), None)
            if len(e.elts) == 2 and isinstance(e.elts[1], ast.Starred):
                a = self.expr(e.elts[0], env)
                b = self.expr(e.elts[1].value, env)
                if isinstance(b, Seq) and b.first is None:
                    return Seq(a, b.rest)
            self.fail(e, "sequence display not supported")
        if isinstance(e, ast.BinOp) and isinstance(e.op, ast.Add):
            a, b = self.expr(e.left, env), self.expr(e.right, env)
            if isinstance(a, Seq) and isinstance(b, Seq):
                if a.rest is None and b.first is None:
                    return Seq(a.first, b.rest)
                self.fail(e, "sequence concatenation not supported")
            if isinstance(a, Seq) or isinstance(b, Seq):
                self.fail(e, "mixed concatenation")
            items = _merge_parts((a.items if isinstance(a, Cat) else [a]) + (b.items if isinstance(b, Cat) else [b]))
            return items[0] if len(items) == 1 and isinstance(items[0], Word) else Cat(items)
        if isinstance(e, ast.Call):
            fn = e.func
            if isinstance(fn, ast.Attribute):
                if fn.attr == 'join' and len(e.args) == 1 and not e.keywords:
                    sep = self.expr(fn.value, env)
                    seq = self.expr(e.args[0], env)
                    if isinstance(sep, Lit) and isinstance(seq, Seq):
                        return Join(sep.s, seq)
                    self.fail(e, "join of something that is not the word list")
                if fn.attr in CASE_METHODS and not e.args and not e.keywords:
                    return t.cast(Sym, _case(self.expr(fn.value, env), CASE_METHODS[fn.attr]))
            if isinstance(fn, ast.Name) and fn.id not in env:
                # a module-level helper of one `return` (a word-level casing function): evaluated on the symbolic arguments
                hq = self.model.resolve(fn, self.a.table_mod)
                hf = self.model.functions.get(hq or '')
                if hf is not None and hf.cls is None and isinstance(hf.node, ast.FunctionDef) and not e.keywords and len(hf.params) == len(e.args) \
                        and getattr(self, '_depth', 0) < 4:
                    hbody = [s_ for s_ in hf.node.body if not (isinstance(s_, ast.Expr) and isinstance(s_.value, ast.Constant))]
                    if len(hbody) == 1 and isinstance(hbody[0], ast.Return) and hbody[0].value is not None:
                        henv: t.Dict[str, Sym] = {p_: self.expr(a_, env) for p_, a_ in zip(hf.params, e.args)}
                        self._depth = getattr(self, '_depth', 0) + 1
                        try:
                            return self.expr(hbody[0].value, henv)
                        finally:
                            self._depth -= 1
                if fn.id == 'enumerate' and len(e.args) == 1 and not e.keywords:
                    seq = self.expr(e.args[0], env)
                    if isinstance(seq, Seq) and seq.first is not None:
                        return Enum(seq)
                    self.fail(e, "enumerate over a sequence that does not start at the first word")
                if fn.id in ('list', 'tuple', 'iter') and len(e.args) == 1:
                    return self.expr(e.args[0], env)
                if fn.id == 'map' and len(e.args) == 2:
                    f = e.args[0]
                    seq = self.expr(e.args[1], env)
                    if isinstance(f, ast.Lambda) and len(f.args.args) == 1:
                        return self.map_over(seq, ast.Name(id=f.args.args[0].arg, ctx=ast.Store()), f.body, env, e)
                    if isinstance(f, ast.Attribute) and isinstance(f.value, ast.Name) and f.value.id == 'str' and f.attr in CASE_METHODS \
                            and isinstance(seq, Seq):
                        c = CASE_METHODS[f.attr]
                        return Seq(_case(seq.first, c), _case(seq.rest, c))
                    self.fail(e, "map with an unsupported function")
        if isinstance(e, ast.JoinedStr):
            items: t.List[Sym] = []
            for v in e.values:
                if isinstance(v, ast.Constant):
                    items.append(Lit(str(v.value)))
                elif isinstance(v, ast.FormattedValue) and v.conversion == -1 and v.format_spec is None:
                    items.append(self.expr(v.value, env))
                else:
                    self.fail(e, "format specification")
            items = _merge_parts(items)
            return items[0] if len(items) == 1 and isinstance(items[0], Word) else Cat(items)
        self.fail(e, "expression form not supported by the joiner evaluator")

    def map_over(self, it: Sym, target: ast.expr, elt: ast.expr, env: t.Dict[str, Sym], where: ast.AST) -> Sym:
        def bind(elem: t.Optional[Sym], state: str) -> t.Optional[Sym]:
            if elem is None:
                return None
            e2 = dict(env)
            if isinstance(it, Enum):
                if isinstance(target, ast.Tuple) and len(target.elts) == 2 and all(isinstance(x, ast.Name) for x in target.elts):
                    e2[t.cast(ast.Name, target.elts[0]).id] = Index(state)
                    e2[t.cast(ast.Name, target.elts[1]).id] = elem
                else:
                    self.fail(where, "enumerate target is not (index, word)")
            else:
                if not isinstance(target, ast.Name):
                    self.fail(where, "loop target is not a name")
                e2[target.id] = elem
            return self.expr(elt, e2)
        seq = it.seq if isinstance(it, Enum) else it
        if not isinstance(seq, Seq):
            self.fail(where, "iteration over something that is not the word list")
        return Seq(bind(seq.first, 'zero'), bind(seq.rest, 'pos'))


class _NonUniform(Exception):
    pass


def _canon(term: Sym) -> t.Union[t.Tuple[str, str, str], str]:
    """(separator, first case, later case) of a joiner result, or a description of why it has no such form."""
    if isinstance(term, Cat):
        items = [i for i in term.items if not (isinstance(i, Lit) and i.s == '')]
        if len(items) == 1:
            return _canon(items[0])
        # first + ''.join(later words)
        if len(items) == 2 and isinstance(items[0], Word) and isinstance(items[1], Join) and items[1].sep == '' and items[1].seq.first is None:
            return _canon(Join('', Seq(items[0], items[1].seq.rest)))
        return f"not a join of the word list: {term!r}"
    if isinstance(term, Join):
        f, r_ = term.seq.first, term.seq.rest
        if isinstance(f, Word) and isinstance(r_, Word):
            return (term.sep, f.case, r_.case)
        return f"words are not joined one by one: {term!r}"
    return f"not a join of the word list: {term!r}"


def rule_c20_r1(model: Model) -> RuleResult:
    r = RuleResult('C20-R1', "rename_field returns JOINER[style](SPLIT(field)) for every style and the name itself only when no style is given",
                   floor=2)
    a = Anchors(model)
    f = a.rename
    r.analysed.add(f.qualname)
    none_conds = []
    for n in a.cfg.live_nodes():
        if n.kind == 'cond':
            text, pos = a.nz.literal(n.ast, n)
            if text in (f'${a.p_style} is None', f'None is ${a.p_style}'):
                none_conds.append((n, 'T' if pos else 'F'))
            elif text in (f'${a.p_style}', f'TRUTHY(${a.p_style})'):     # `if not style` (no style is the empty string)
                none_conds.append((n, 'F' if pos else 'T'))
    none_texts = {(f'${a.p_style} is None', True), (f'None is ${a.p_style}', True), (f'${a.p_style}', False), (f'TRUTHY(${a.p_style})', False)}
    for idx, (n, text, m) in enumerate(a.returns):
        r.instances += 1
        r.sample({'return': text, 'line': n.ast.lineno})
        if m and a.arg_pat.match(m.group('arg')):
            r.ok()
        elif m:
            r.fail(f.qualname, f"joiner applied to {m.group('arg')}", f.loc(n.ast),
                   "the style's joiner is not given the split words of the field name")
        elif text == f'${a.p_field}':
            if any(a.cfg.edge_dominates(c, lb, n) for (c, lb) in none_conds) or any(g in none_texts for g in a.expr_guards.get(idx, [])):
                r.ok()
            else:
                r.fail(f.qualname, 'the field name is returned unchanged although a style is given', f.loc(n.ast),
                       "a style that is given is not applied (the name keeps its Python spelling)")
        else:
            r.fail(f.qualname, f"return {text}", f.loc(n.ast),
                   "a renamed field is not the style's joiner applied to the split words of the field name")
    # the style tables agree
    styles = _literal_strings(model, FIELD_MOD, 'RenameStyle')
    keys = sorted(a.joiners())
    r.instances += 1
    r.sample({'styles': sorted(styles), 'joiners': keys})
    if keys == sorted(styles) and set(keys) == set(CANONICAL):
        r.ok()
    else:
        r.fail(a.table_q, f"styles {sorted(styles)}, joiners {keys}, canonical spellings known for {sorted(CANONICAL)}", a.table_mod.relpath,
               "a rename style has no joiner (KeyError at class creation) or no canonical spelling is stated for it")
    return r


def _literal_strings(model: Model, modname: str, name: str) -> t.List[str]:
    v = model.table(modname, name)
    if isinstance(v, ast.Subscript):
        sl = v.slice
        elts = sl.elts if isinstance(sl, ast.Tuple) else [sl]
        out = [e.value for e in elts if isinstance(e, ast.Constant) and isinstance(e.value, str)]
        if len(out) == len(elts):
            return out
    raise AnalysisError(f"{modname}.{name} is not a Literal[...] of strings")


def rule_c20_r2(model: Model) -> RuleResult:
    r = RuleResult('C20-R2', "every style's joiner is the canonical spelling: separator, case of the first word, case of later words", floor=5)
    a = Anchors(model)
    for style, fn in sorted(a.joiners().items()):
        want = CANONICAL.get(style)
        if want is None:
            continue            # reported by C20-R1
        r.instances += 1
        loc = f"{a.table_mod.relpath}:{fn.lineno}"
        try:
            term = JoinerEval(model, a, style).function(fn)
            got = _canon(term)
        except _NonUniform as ex:
            got = f"words are not cased by position alone (`{ex}`)"
        r.sample({'style': style, 'joiner': got if isinstance(got, str) else {'separator': got[0], 'first word': got[1], 'later words': got[2]}})
        if got == want:
            r.ok()
        else:
            shown = got if isinstance(got, str) else f"separator {got[0]!r}, first word {got[1]}, later words {got[2]}"
            r.fail(f"{a.table_q}['{style}']", shown, loc,
                   f"style '{style}' must give separator {want[0]!r}, first word {want[1]}, later words {want[2]} "
                   f"(canonical spelling; needed too for re-applying the style and for converting back to snake)")
    return r


# ---------------------------------------------------------------------------------------------------------------------
# regular expressions of the splitter

def _closure(model: Model, f: FuncInfo) -> t.List[FuncInfo]:
    """f, the functions nested in it, and module-level functions of the same module it names."""
    out: t.List[FuncInfo] = []
    todo = [f]
    while todo:
        g = todo.pop()
        if g in out:
            continue
        out.append(g)
        for h in model.functions.values():
            if h.parent is g:
                todo.append(h)
        for x in ast.walk(g.node):
            if isinstance(x, ast.Name) and isinstance(x.ctx, ast.Load):
                q = model.resolve(x, g.module, g)
                h2 = model.functions.get(q or '')
                if h2 is not None and h2.module is g.module and h2.cls is None:
                    todo.append(h2)
    return out


class Rx:
    def __init__(self, func: FuncInfo, call: ast.Call, pattern: str, subject: t.Optional[ast.expr], what: str):
        self.func, self.call, self.pattern, self.subject, self.what = func, call, pattern, subject, what
        try:
            self.parsed = sre_parse.parse(pattern)
        except Exception as ex:     # noqa: BLE001
            raise AnalysisError(f"{func.loc(call)}: cannot parse pattern {pattern!r}: {ex}")

    def single_class(self) -> t.Optional[t.Tuple[t.Set[str], bool, bool]]:
        """(characters, captured, repeated) if the pattern is one (possibly captured / repeated) character class."""
        items = list(self.parsed)
        captured = repeated = False
        while True:
            if len(items) != 1:
                return None
            op, av = items[0]
            if op is sre_const.SUBPATTERN:
                captured = captured or av[0] is not None
                items = list(av[3])
                continue
            if op in (sre_const.MAX_REPEAT, sre_const.MIN_REPEAT):
                lo, hi, sub = av
                if not (lo == 1 and hi == 1):
                    repeated = True
                items = list(sub)
                continue
            break
        chars = _charset(items[0])
        if chars is None:
            return None
        return chars, captured, repeated

    def classes(self) -> t.List[t.Set[str]]:
        out: t.List[t.Set[str]] = []

        def walk(items: t.Any) -> None:
            for (op, av) in items:
                cs = _charset((op, av))
                if cs is not None:
                    out.append(cs)
                elif op is sre_const.SUBPATTERN:
                    walk(av[3])
                elif op in (sre_const.MAX_REPEAT, sre_const.MIN_REPEAT):
                    walk(av[2])
                elif op is sre_const.BRANCH:
                    for alt in av[1]:
                        walk(alt)
                elif op in (sre_const.ASSERT, sre_const.ASSERT_NOT):
                    walk(av[1])
        walk(self.parsed)
        return out


ASCII = [chr(i) for i in range(128)]


def _charset(item: t.Tuple[t.Any, t.Any]) -> t.Optional[t.Set[str]]:
    op, av = item
    if op is sre_const.LITERAL:
        return {chr(av)}
    if op is sre_const.IN:
        neg = False
        cs: t.Set[str] = set()
        for (o2, a2) in av:
            if o2 is sre_const.NEGATE:
                neg = True
            elif o2 is sre_const.LITERAL:
                cs.add(chr(a2))
            elif o2 is sre_const.RANGE:
                cs.update(chr(i) for i in range(a2[0], min(a2[1], 127) + 1))
            elif o2 is sre_const.CATEGORY:
                name = str(a2)
                table = {'CATEGORY_DIGIT': string.digits, 'CATEGORY_WORD': string.ascii_letters + string.digits + '_',
                         'CATEGORY_SPACE': ' \t\n\r\f\v'}
                pos = next((k for k in table if name.endswith(k)), None)
                negc = next((k for k in table if name.endswith('NOT_' + k.split('_', 1)[1])), None)
                if negc is not None:
                    cs.update(c for c in ASCII if c not in table[negc])
                elif pos is not None:
                    cs.update(table[pos])
                else:
                    return None
            else:
                return None
        return {c for c in ASCII if c not in cs} if neg else cs
    return None


RE_FUNCS = {'re.split': 'split', 're.findall': 'find', 're.finditer': 'find', 're.sub': 'sub', 're.subn': 'sub', 're.match': 'match',
            're.search': 'match', 're.fullmatch': 'match', 're.compile': 'compile'}


def _regexes(model: Model, funcs: t.List[FuncInfo]) -> t.List[Rx]:
    out: t.List[Rx] = []
    seen: t.Set[int] = set()
    for f in funcs:
        for x in _own_nodes(f):
            if id(x) in seen or not isinstance(x, ast.Call):
                continue
            seen.add(id(x))
            q = model.resolve(x.func, f.module, f)
            if q in RE_FUNCS and x.args:
                pat = x.args[0]
                if isinstance(pat, ast.Name) and isinstance(f.node, ast.FunctionDef):
                    # a parameter with a default: the pattern the function is normally used with
                    a_ = f.node.args
                    pos = a_.posonlyargs + a_.args
                    dmap = dict(zip([p_.arg for p_ in pos][len(pos) - len(a_.defaults):], a_.defaults))
                    dmap.update({p_.arg: d for p_, d in zip(a_.kwonlyargs, a_.kw_defaults) if d is not None})
                    if pat.id in dmap:
                        pat = dmap[pat.id]
                if isinstance(pat, ast.Name):
                    v = f.module.assign_values.get(pat.id)
                    if isinstance(v, ast.Constant):
                        pat = v
                if not (isinstance(pat, ast.Constant) and isinstance(pat.value, str)):
                    raise AnalysisError(f"{f.loc(x)}: pattern of {q} is not a constant")
                subject = x.args[1] if len(x.args) > 1 and RE_FUNCS[q] != 'sub' else (x.args[2] if len(x.args) > 2 else None)
                out.append(Rx(f, x, pat.value, subject, RE_FUNCS[q]))
    # module-level compiled patterns used by these functions
    for f in funcs:
        for x in _own_nodes(f):
            if isinstance(x, ast.Call) and isinstance(x.func, ast.Attribute) and isinstance(x.func.value, ast.Name) \
                    and x.func.attr in ('split', 'findall', 'finditer', 'sub', 'match', 'search', 'fullmatch'):
                v = f.module.assign_values.get(x.func.value.id)
                if isinstance(v, ast.Call) and model.resolve(v.func, f.module) == 're.compile' and v.args \
                        and isinstance(v.args[0], ast.Constant) and isinstance(v.args[0].value, str):
                    what = {'split': 'split', 'findall': 'find', 'finditer': 'find', 'sub': 'sub'}.get(x.func.attr, 'match')
                    subject = x.args[0] if x.args and what != 'sub' else (x.args[1] if len(x.args) > 1 else None)
                    out.append(Rx(f, x, v.args[0].value, subject, what))
    return out


def _own_nodes(f: FuncInfo) -> t.Iterator[ast.AST]:
    for st in f.node.body:
        if isinstance(st, (ast.FunctionDef, ast.AsyncFunctionDef, ast.ClassDef)):
            continue
        yield from walk_no_nested(st)


def _separator_split(model: Model, a: Anchors) -> t.Tuple[Rx, t.List[Rx]]:
    sp = a.splitter
    nz = Normalizer(model, sp, cfg_of(model, sp))
    rxs = _regexes(model, _closure(model, sp))
    if not rxs:
        raise AnalysisError(f"{sp.loc()}: the splitter uses no regular expression; separator analysis not applicable to this implementation")
    cfg = cfg_of(model, sp)
    first = None
    for rx in rxs:
        if rx.func is sp and rx.what == 'split' and rx.subject is not None:
            node = next((n for n in cfg.live_nodes() if n.ast is not None and any(y is rx.call for y in ast.walk(n.ast))), None)
            if node is not None and nz.expr(rx.subject, node) == f'${sp.params[0]}':
                first = rx
                break
    if first is None:
        raise AnalysisError(f"{sp.loc()}: no re.split(<separators>, {sp.params[0]}) on the field name found in the splitter")
    return first, [x for x in rxs if x is not first]


def rule_c20_r3(model: Model) -> RuleResult:
    r = RuleResult('C20-R3', "separators written by the joiners are the separators the splitter splits on (one character, never alphanumeric); "
                             "the case-boundary pattern distinguishes exactly the upper-case letters", floor=3)
    a = Anchors(model)
    seprx, others = _separator_split(model, a)
    sp = a.splitter
    r.analysed.add(sp.qualname)
    sc = seprx.single_class()
    if sc is None:
        raise AnalysisError(f"{sp.loc(seprx.call)}: separator pattern {seprx.pattern!r} is not a single character class")
    chars, _captured, repeated = sc
    # written separators
    written: t.Dict[str, str] = {}
    for style, fn in sorted(a.joiners().items()):
        try:
            got = _canon(JoinerEval(model, a, style).function(fn))
        except _NonUniform:
            continue
        if isinstance(got, tuple) and got[0]:
            written[style] = got[0]
    r.instances += 1
    r.sample({'separator pattern': seprx.pattern, 'splits on': sorted(chars), 'joiners write': written})
    missing = {s: sep for s, sep in written.items() if not (len(sep) == 1 and sep in chars)}
    if missing:
        r.fail(sp.qualname, f"pattern {seprx.pattern!r} does not split on {sorted(set(missing.values()))} written by {sorted(missing)}", sp.loc(seprx.call),
               "a styled name cannot be split back into its words (re-applying a style or converting back to snake mangles it)")
    else:
        r.ok()
    r.instances += 1
    alnum = sorted(c for c in chars if c.isalnum())
    if alnum:
        r.fail(sp.qualname, f"pattern {seprx.pattern!r} splits on alphanumeric characters {alnum[:6]}", sp.loc(seprx.call),
               "words of a snake_case name are cut apart")
    else:
        r.ok()
    r.instances += 1
    if repeated:
        r.fail(sp.qualname, f"pattern {seprx.pattern!r} matches a run of separators", sp.loc(seprx.call),
               "a doubled separator is swallowed instead of leaving an empty word, so the name is mangled rather than refused")
    else:
        r.ok()
    # case boundary
    upper = set(string.ascii_uppercase)
    letters = set(string.ascii_letters)
    touching = []
    for rx in others:
        for cs in rx.classes():
            if cs & upper and (cs & letters) != letters:
                touching.append((rx, cs))
    if not touching:
        raise AnalysisError(f"{sp.loc()}: no pattern over the upper-case letters found in the splitter; case-boundary analysis not applicable "
                            f"to this implementation")
    for (rx, cs) in touching:
        r.instances += 1
        r.sample({'case pattern': rx.pattern, 'letters': ''.join(sorted(cs & letters))})
        sc2 = rx.single_class()
        if cs & letters == upper and rx.what == 'split' and sc2 is not None and not sc2[1]:
            r.fail(rx.func.qualname, f"split pattern {rx.pattern!r} has no capture group", rx.func.loc(rx.call),
                   "re.split drops what an uncaptured pattern matches: the capital letter of every later word is lost")
        elif cs & letters == upper:
            r.ok()
        else:
            miss = ''.join(sorted(upper - cs))
            extra = ''.join(sorted((cs & letters) - upper))
            r.fail(rx.func.qualname, f"pattern {rx.pattern!r}: upper-case letters not covered {miss!r}, other letters covered {extra!r}", rx.func.loc(rx.call),
                   "camelCase / PascalCase names are not cut exactly at their capital letters, so converting back to snake loses or invents words")
    # tokenisers (findall / finditer over a word): whatever the pattern does not match is silently dropped
    sigma = [c for c in string.ascii_letters + string.digits]
    for rx in others:
        if rx.what != 'find':
            continue
        r.instances += 1
        try:
            witness = _tiles_every_word(rx.parsed, sigma)
        except _Unsupported as ex:
            r.note(f"{rx.func.loc(rx.call)}: pattern {rx.pattern!r} uses {ex}; tiling not decided")
            r.ok()
            continue
        r.sample({'tokeniser': rx.pattern, 'untiled_word': witness})
        if witness is None:
            r.ok()
        else:
            r.fail(rx.func.qualname, f"tokeniser {rx.pattern!r} does not match all of {witness!r}", rx.func.loc(rx.call),
                   f"findall / finditer skip what the pattern does not match: characters of a name such as {witness!r} vanish from the "
                   f"word list, so different field names are renamed to the same key and the conversion back loses them")
    return r


class _Unsupported(Exception):
    pass


def _tiles_every_word(parsed: t.Any, sigma: t.Sequence[str]) -> t.Optional[str]:
    """Is every non-empty string over ``sigma`` a concatenation of matches of the pattern (so that findall drops nothing)?
    Thompson construction over the regex AST, Kleene star on top, subset construction; returns a shortest string that is *not* tiled,
    or None if (R)+ is universal.  Raises _Unsupported for anchors, look-arounds and back-references."""
    trans: t.List[t.List[t.Tuple[t.Optional[t.FrozenSet[str]], int]]] = []

    def new() -> int:
        trans.append([])
        return len(trans) - 1

    def build(items: t.Any, start: int) -> int:
        cur = start
        for (op, av) in items:
            cs = _charset((op, av))
            if op is sre_const.NOT_LITERAL:
                cs = {c for c in ASCII if c != chr(av)}
            if op is sre_const.ANY:
                cs = set(ASCII) - {'\n'}
            if cs is not None:
                nxt = new()
                trans[cur].append((frozenset(cs), nxt))
                cur = nxt
            elif op is sre_const.SUBPATTERN:
                cur = build(av[3], cur)
            elif op is sre_const.BRANCH:
                end = new()
                for alt in av[1]:
                    s0 = new()
                    trans[cur].append((None, s0))
                    trans[build(alt, s0)].append((None, end))
                cur = end
            elif op in (sre_const.MAX_REPEAT, sre_const.MIN_REPEAT):
                lo, hi, sub = av
                for _ in range(min(lo, 8)):
                    cur = build(sub, cur)
                if hi is sre_const.MAXREPEAT or hi > 8:
                    s0 = new()
                    trans[cur].append((None, s0))
                    e0 = build(sub, s0)
                    trans[e0].append((None, s0))
                    end = new()
                    trans[s0].append((None, end))
                    cur = end
                else:
                    end = new()
                    trans[cur].append((None, end))
                    for _ in range(hi - lo):
                        cur = build(sub, cur)
                        trans[cur].append((None, end))
                    cur = end
            else:
                raise _Unsupported(str(op))
        return cur

    start = new()
    accept = build(parsed, start)
    trans[accept].append((None, start))     # (R)+ : after a match, start the next one

    def closure(states: t.Iterable[int]) -> t.FrozenSet[int]:
        out = set(states)
        todo = list(out)
        while todo:
            x = todo.pop()
            for (cs, y) in trans[x]:
                if cs is None and y not in out:
                    out.add(y)
                    todo.append(y)
        return frozenset(out)

    first = closure([start])
    seen = {first: ''}
    queue = [first]
    while queue:
        S = queue.pop(0)
        for ch in sigma:
            T = closure(y for x in S for (cs, y) in trans[x] if cs is not None and ch in cs)
            if T in seen:
                continue
            w = seen[S] + ch
            seen[T] = w
            if accept not in T:
                return w
            queue.append(T)
    return None


def rule_c20_r4(model: Model) -> RuleResult:
    r = RuleResult('C20-R4', "an empty word after separator splitting raises ValueError before any word list is returned, and nothing on the "
                             "renaming path catches it", floor=2)
    a = Anchors(model)
    sp = a.splitter
    cfg = cfg_of(model, sp)
    nz = Normalizer(model, sp, cfg)
    seprx, _others = _separator_split(model, a)
    r.analysed.add(sp.qualname)
    node0 = next((n for n in cfg.live_nodes() if n.ast is not None and any(y is seprx.call for y in ast.walk(n.ast))), None)
    assert node0 is not None
    parts = nz.expr(seprx.call, node0)
    # emptiness tests of the parts, with the edge on which some part is empty
    forms_true = {f"'' in {parts}", f"any(GEN(not ELEM({parts})))", f"any(GEN(ELEM({parts}) == ''))", f"any(GEN('' == ELEM({parts})))",
                  f"any(GEN(not TRUTHY(ELEM({parts}))))"}
    forms_false = {f"all({parts})", f"all(GEN(ELEM({parts})))", f"all(GEN(TRUTHY(ELEM({parts}))))", f"all(GEN(ELEM({parts}) != ''))",
                   f"'' not in {parts}"}
    guards: t.List[t.Tuple[Node, str]] = []
    seen_conds = []
    for n in cfg.live_nodes():
        if n.kind != 'cond':
            continue
        text, pos = nz.literal(n.ast, n)
        seen_conds.append(text)
        if text in forms_true:
            guards.append((n, 'T' if pos else 'F'))
        elif text in forms_false:
            guards.append((n, 'F' if pos else 'T'))
    r.instances += 1
    r.sample({'words': parts, 'conditions': seen_conds})
    good = None
    for (c, empty_edge) in guards:
        pass_edge = 'F' if empty_edge == 'T' else 'T'
        # every normal exit needs the pass edge; the empty edge ends in `raise ValueError` only
        normal = [n for n in cfg.live_nodes() if n.kind != 'raise_exit' and any(m is cfg.exit for (_lb, m) in n.succ)]
        if not normal or not all(cfg.edge_dominates(c, pass_edge, n) for n in normal):
            continue
        ok = True
        reach = _reach_from(cfg, c, empty_edge)
        if any(n.id in reach for n in normal):
            ok = False
        raises = [n for n in cfg.nodes if n.id in reach and n.kind == 'raise']
        for rn in raises:
            cls = _raised_class(model, sp, rn)
            if cls is None or 'ValueError' not in exception_mro(model, cls):
                ok = False
        if not raises:
            ok = False
        if ok:
            good = (c, raises)
            break
    if good is None:
        r.fail(sp.qualname, f"no test that every word of {parts} is non-empty guards the result", sp.loc(),
               "a name with a leading, trailing or doubled separator is renamed (mangled) instead of being refused with ValueError")
    else:
        r.ok()
    # the refusal reaches the caller of rename_field
    r.instances += 1
    caught = None
    for n in a.cfg.live_nodes():
        if n.ast is None:
            continue
        for x in ast.walk(n.ast) if n.kind != 'handler' else []:
            if isinstance(x, ast.Call) and model.resolve(x.func, a.rename.module, a.rename) == a.split_q:
                for tr in n.tries:
                    for h in tr.handlers:
                        hc = handler_classes(model, a.rename, h)
                        if hc is None or catches(model, hc, 'builtins.ValueError'):
                            caught = h
    if caught is not None:
        r.fail(a.rename.qualname, 'the splitter is called under a handler that catches ValueError', a.rename.loc(caught),
               "the refusal of an unsplittable name does not reach the caller")
    else:
        r.ok()
    # ... and the callers of rename_field inside the package let it through as well (PaneBase.dict(rename=...), make_field)
    rq = a.rename.qualname
    for g in model.all_functions():
        if not isinstance(g.node, (ast.FunctionDef, ast.AsyncFunctionDef)) or g is a.rename:
            continue
        sites = [x for x in walk_no_nested(g.node) if isinstance(x, ast.Call) and model.resolve(x.func, g.module, g) == rq]
        if not sites:
            continue
        gcfg = cfg_of(model, g)
        for x in sites:
            n = gcfg.node_of(x)
            if n is None:
                continue
            r.instances += 1
            r.analysed.add(g.qualname)
            hit = None
            for tr in n.tries:
                for h in tr.handlers:
                    hc = handler_classes(model, g, h)
                    if hc is None or catches(model, hc, 'builtins.ValueError'):
                        hit = h
            if hit is not None:
                r.fail(g.qualname, 'rename_field is called under a handler that catches ValueError', g.loc(hit),
                       "a name that cannot be split into words is passed on unrenamed (or under some substitute) instead of being refused: "
                       "keys of different styles are mixed in one output")
            else:
                r.ok()
    return r


def _reach_from(cfg: CFG, c: Node, label: str) -> t.Set[int]:
    seen: t.Set[int] = set()
    stack = list(c.edge(label))
    while stack:
        n = stack.pop()
        if n.id in seen:
            continue
        seen.add(n.id)
        if n.kind == 'raise_exit':
            continue
        for (_lb, m) in n.succ:
            stack.append(m)
    return seen


def _raised_class(model: Model, f: FuncInfo, n: Node) -> t.Optional[str]:
    st = n.ast
    if not isinstance(st, ast.Raise) or st.exc is None:
        return None
    e = st.exc.func if isinstance(st.exc, ast.Call) else st.exc
    q = model.resolve(e, f.module, f)
    if q is None and isinstance(e, ast.Name):
        q = e.id
    if q is not None and q.startswith('builtins.'):
        q = q[len('builtins.'):]
    return q


def rule_c20_r6(model: Model) -> RuleResult:
    """Each word between separators is split on its own: snake -> style -> snake recovers the words only if how 'AB' or 'aB' is cut does not
    depend on what else the name contains."""
    r = RuleResult('C20-R6', "the per-word case splitter reads nothing but the word it is given (no state of the enclosing call)", floor=1)
    a = Anchors(model)
    sp = a.splitter
    outer_locals = {x.id for x in walk_no_nested(sp.node) if isinstance(x, ast.Name) and isinstance(x.ctx, ast.Store)} | set(sp.params)
    nested = [g for g in model.all_functions() if g.parent is sp and isinstance(g.node, (ast.FunctionDef, ast.Lambda))]
    r.analysed.add(sp.qualname)
    if not nested:
        r.note('the splitter has no nested per-word helper: nothing to check')
        r.instances += 1
        r.ok()
        return r
    for g in nested:
        r.instances += 1
        own = set(g.params) | {x.id for x in ast.walk(g.node) if isinstance(x, ast.Name) and isinstance(x.ctx, ast.Store)}
        free = sorted({x.id for x in ast.walk(g.node) if isinstance(x, ast.Name) and isinstance(x.ctx, ast.Load)
                       and x.id in outer_locals and x.id not in own})
        r.sample({'helper': g.qualname, 'reads from the enclosing call': free})
        if free:
            r.fail(g.qualname, f"reads {free} of the enclosing call", g.loc(),
                   "how one word is cut depends on the rest of the name: 'AB' alone and 'AB' next to a separator split differently, so a "
                   "styled form no longer converts back to the snake_case name it came from (and distinct names collide)")
        else:
            r.ok()
    return r


def rule_c20_r7(model: Model) -> RuleResult:
    """``obj.dict(rename=style)``: every key is the styled spelling of the field's Python name, computed by rename_field itself."""
    from .agreement import _split_phi
    r = RuleResult('C20-R7', "PaneBase.dict(rename=...) names every key rename_field(<python name>, rename)", floor=2)
    a = Anchors(model)
    d = model.func('pane.classes.PaneBase.dict')
    cfg = cfg_of(model, d)
    nz = Normalizer(model, d, cfg, param_map={p_: (p_ if p_ in ('self', 'cls') else f'${p_}') for p_ in d.params})
    r.analysed.add(d.qualname)
    rq = a.rename.qualname
    forms: t.List[str] = []
    for n in cfg.live_nodes():
        if n.kind == 'return' and n.ast is not None and n.ast.value is not None:
            forms.extend(_split_phi(nz.expr(n.ast.value, n)))
    if not forms:
        raise AnalysisError(f"{d.loc()}: PaneBase.dict returns nothing")
    forms = [y for x in forms for y in _distribute_elem_phi(x)]
    for form in forms:
        r.instances += 1
        m_ = re.match(r'^DICT\((.*?): getattr\(', form)
        key = m_.group(1) if m_ else None
        r.sample({'dict() key': key})
        if key is not None and re.fullmatch(re.escape(rq) + r'\((ELEM\(self\.__pane_info__\.fields\)\.name|ELEM\(self\.__pane_set__\)), \$rename\)', key):
            r.ok()
        else:
            r.fail(d.qualname, f"key {str(key or form)[:100]}", d.loc(),
                   "a key of dict(rename=style) is not the styled spelling of the field's Python name (a precomputed output name, which may "
                   "be a field-level override, is used instead): the key does not convert back to the field name")
    return r


def rule_c20_r5(model: Model) -> RuleResult:
    """Class-level renaming reaches rename_field unchanged: the field's name and the class's styles are handed over as given."""
    r = RuleResult('C20-R5', "make_field hands the field name and the class-level styles to rename_field as given (not rebound, not "
                             "skipped depending on how the name is spelled)", floor=2)
    mk = model.func(f'{FIELD_MOD}.FieldSpec.make_field')
    cls = mk.cls
    assert cls is not None
    closure = [mk]
    for g in closure:
        for c in ast.walk(g.node):
            if isinstance(c, ast.Call) and isinstance(c.func, ast.Attribute) and isinstance(c.func.value, ast.Name) and g.params \
                    and c.func.value.id == g.params[0]:
                h = model.find_method(cls.qualname, c.func.attr)
                if h is not None and h not in closure and isinstance(h.node, ast.FunctionDef):
                    closure.append(h)
            if isinstance(c, ast.Call) and isinstance(c.func, ast.Name):
                h2 = model.functions.get(model.resolve(c.func, g.module, g) or '')
                if h2 is not None and h2.module is g.module and h2.cls is None and h2.qualname != RENAME and h2 not in closure \
                        and isinstance(h2.node, ast.FunctionDef):
                    closure.append(h2)
    # (a) parameters are not rebound
    r.instances += 1
    r.analysed.add(mk.qualname)
    rebound = []
    for g in closure:
        cfg = cfg_of(model, g)
        for p_ in (g.params[1:] if g.cls is not None else g.params):
            for d in cfg.reaching().by_name.get(p_, []):
                if d.kind != 'param':
                    rebound.append((g, d, p_))
    if rebound:
        g, d, p_ = rebound[0]
        r.fail(g.qualname, f"parameter {p_} is rebound", g.loc(d.stmt or d.node.ast or g.node),
               "the field name or the class-level rename style is replaced before renaming: some fields keep their Python spelling although "
               "the class asks for a style (e.g. `width` stays `width` under rename='scream')")
    else:
        r.ok()
    # (b) every rename_field call gets (the name, one of the class-level styles), under configuration tests only
    n_calls = 0
    for g in closure:
        cfg = cfg_of(model, g)
        nz = Normalizer(model, g, cfg)
        for n in cfg.live_nodes():
            for root in node_exprs_(n):
                for c, bound in _walk_bound(root, nz, n):
                    if not (isinstance(c, ast.Call) and model.resolve(c.func, g.module, g) == RENAME and len(c.args) >= 2):
                        continue
                    n_calls += 1
                    r.instances += 1
                    name_form = nz.expr(c.args[0], n, bound)
                    style_form = nz.expr(c.args[1], n, bound)
                    conds = []
                    for (cid, lb) in cfg.conditions_of(n):
                        cn = cfg.nodes[cid]
                        if cn.kind == 'cond' and cn.ast is not None:
                            text, _pos = nz.literal(cn.ast, cn)
                            conds.append(text)
                    r.sample({'function': g.qualname, 'rename_field': f"({name_form}, {style_form})", 'under': conds})
                    ok_name = bool(re.match(r'^(VAL|\$\w+)$', name_form))
                    ok_style = bool(re.match(r'^(\$\w+|ELEM\(\$\w+\))$', style_form))
                    name_dep = [c_ for c_ in conds if name_form in c_ and ' is None' not in c_]
                    if ok_name and ok_style and not name_dep:
                        r.ok()
                    else:
                        r.fail(g.qualname, f"rename_field({name_form}, {style_form}) under {name_dep or conds}", g.loc(c),
                               "renaming is applied to something else than the field's name and the class's style, or only for names of a "
                               "certain spelling")
    if n_calls == 0:
        raise AnalysisError(f"{mk.loc()}: make_field never calls rename_field")
    return r


def node_exprs_(n: Node) -> t.List[ast.AST]:
    from ..cfg import node_exprs
    return node_exprs(n)


def _walk_bound(root: ast.AST, nz: Normalizer, n: Node) -> t.Iterator[t.Tuple[ast.AST, t.Dict[str, str]]]:
    from ..family import walk_with_bindings
    return walk_with_bindings(root, nz, n)


def rule_c20_r9(model: Model) -> RuleResult:
    """Refusal is reserved for names that cannot be split into words: every ``raise`` of rename_field and of the splitter sits behind
    the empty-word test.  (Styled forms - ``a-b``, ``aB`` - are legal inputs: converting them back to snake must work.)"""
    r = RuleResult('C20-R9', "rename_field and the splitter refuse a name only behind the empty-word test", floor=2)
    a = Anchors(model)
    sp = a.splitter
    seprx, _others = _separator_split(model, a)
    for f in (a.rename, sp):
        cfg = cfg_of(model, f)
        nz = Normalizer(model, f, cfg)
        r.instances += 1
        r.analysed.add(f.qualname)
        allowed: t.Set[int] = set()
        if f is sp:
            node0 = next((n for n in cfg.live_nodes() if n.ast is not None and any(y is seprx.call for y in ast.walk(n.ast))), None)
            if node0 is not None:
                parts = nz.expr(seprx.call, node0)
                forms_true = {f"'' in {parts}", f"any(GEN(not ELEM({parts})))", f"any(GEN(ELEM({parts}) == ''))", f"any(GEN('' == ELEM({parts})))",
                              f"any(GEN(not TRUTHY(ELEM({parts}))))"}
                forms_false = {f"all({parts})", f"all(GEN(ELEM({parts})))", f"all(GEN(TRUTHY(ELEM({parts}))))", f"all(GEN(ELEM({parts}) != ''))",
                               f"'' not in {parts}"}
                for n in cfg.live_nodes():
                    if n.kind != 'cond':
                        continue
                    text, pos = nz.literal(n.ast, n)
                    edge = None
                    if text in forms_true:
                        edge = 'T' if pos else 'F'
                    elif text in forms_false:
                        edge = 'F' if pos else 'T'
                    if edge is not None:
                        allowed |= {m for m in _reach_from(cfg, n, edge)
                                    if cfg.edge_dominates(n, edge, cfg.nodes[m])}
        raises = [n for n in cfg.live_nodes() if n.kind == 'raise']
        other = [n for n in raises if n.id not in allowed]
        r.sample({f.qualname: {'raise statements': len(raises), 'not behind the empty-word test': [unparse(n.ast)[:60] for n in other if n.ast is not None]}})
        if not other:
            r.ok()
        else:
            n = other[0]
            r.fail(f.qualname, f"`{unparse(n.ast)[:70] if n.ast is not None else 'raise'}` refuses names for another reason than an empty word",
                   f.loc(n.ast) if n.ast is not None else f.loc(),
                   "names that split into words perfectly well (the kebab or camel form of a field, converted back to snake) are refused")
    return r


def _matching_paren(text: str, start: int) -> int:
    """Index of the parenthesis closing the one at ``start``."""
    depth = 0
    for i in range(start, len(text)):
        if text[i] in '([{':
            depth += 1
        elif text[i] in ')]}':
            depth -= 1
            if depth == 0:
                return i
    return -1


def _distribute_elem_phi(form: str) -> t.List[str]:
    """``... ELEM(PHI(A|B)) ...`` (one comprehension over a source chosen by an ``if``) is one form per source; an element of a
    generator ``GEN(E if C)`` is ``E``."""
    from .agreement import _split_phi
    i = form.find('ELEM(PHI(')
    if i < 0:
        out = form
        # ELEM(GEN(E if C)) / ELEM(GEN(E)) -> E
        while True:
            j = out.find('ELEM(GEN(')
            if j < 0:
                break
            end = _matching_paren(out, j + 4)
            if end < 0:
                break
            inner = out[j + 9:end - 1]
            k = inner.rfind(' if ')
            elem = inner[:k] if k >= 0 and inner.count('(', 0, k) == inner.count(')', 0, k) else inner
            out = out[:j] + elem + out[end + 1:]
        return [out]
    end = _matching_paren(form, i + 4)
    if end < 0:
        return [form]
    whole = form[i:end + 1]
    alts = _split_phi(form[i + 5:end])
    res: t.List[str] = []
    for a_ in alts:
        res.extend(_distribute_elem_phi(form.replace(whole, f'ELEM({a_})')))
    return res
