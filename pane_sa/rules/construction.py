"""C14: dataclass construction is conversion; defaults are fresh; set-field record exact (DESIGN §16)."""
from __future__ import annotations

import ast
import re
import typing as t

from ..cfg import CFG, Node, cfg_of, node_exprs, walk_no_nested
from ..model import AnalysisError, FuncInfo, Model, ancestors, unparse
from ..norm import Normalizer
from ..report import RuleResult

INIT = 'pane.classes._make_init.__init__'
STRUCT = 'pane.classes.PaneConverter.try_convert_struct'


def _pm(f: FuncInfo) -> t.Dict[str, str]:
    pm = {p: f'${p}' for p in f.params}
    if f.params and f.params[0] in ('self', 'cls'):
        pm[f.params[0]] = f.params[0]
    return pm


def rule_c14_r1(model: Model) -> RuleResult:
    r = RuleResult('C14-R1', 'a default factory is called (once per instance) wherever its product is stored as a field value', floor=3)
    # every read of .default_factory in the package is either a None-test or a zero-argument call
    for f in model.all_functions():
        if not isinstance(f.node, ast.FunctionDef) or not f.module.name.startswith('pane.classes'):
            continue
        for sub in ast.walk(f.node):
            if isinstance(sub, ast.Attribute) and sub.attr == 'default_factory' and isinstance(sub.ctx, ast.Load):
                if model.enclosing_function(sub) is not f:
                    continue
                par = getattr(sub, '_parent', None)
                r.instances += 1
                r.analysed.add(f.qualname)
                if isinstance(par, ast.Compare):
                    r.ok()
                elif isinstance(par, ast.Call) and par.func is sub and not par.args and not par.keywords:
                    r.ok()
                    r.sample({'function': f.qualname, 'use': unparse(par)})
                elif isinstance(par, ast.keyword) or (isinstance(par, ast.Call) and sub in par.args):
                    r.ok()       # handed on as configuration (Field(...)), not stored as a value
                else:
                    r.fail(f.qualname, f"{unparse(par)[:80]}", f.loc(sub),
                           "the factory object itself is stored as the field's value instead of being called: "
                           "Cls.from_data({}) yields b=<class 'list'> where Cls() yields b=[]")
    # per-instance: the calls that produce stored values sit inside the per-instance functions
    for q in (INIT, STRUCT):
        f = model.func(q)
        calls = [c for c in ast.walk(f.node) if isinstance(c, ast.Call) and isinstance(c.func, ast.Attribute) and c.func.attr == 'default_factory'
                 and model.enclosing_function(c) is f]
        r.instances += 1
        if calls:
            r.ok()
        else:
            r.fail(q, 'no default_factory() call', f.loc(), "fields with a default factory are not filled with a fresh product on this construction path")
    # nothing hoisted: a factory product computed in _make_init (class creation) must not flow into __init__
    outer = model.func('pane.classes._make_init')
    inner = model.func(INIT)
    hoisted = []
    for st in outer.node.body:
        if isinstance(st, ast.FunctionDef):
            continue
        for c in ast.walk(st):
            if isinstance(c, ast.Call) and isinstance(c.func, ast.Attribute) and c.func.attr == 'default_factory':
                # find the name it is bound to
                par = getattr(c, '_parent', None)
                if isinstance(par, ast.Assign):
                    for tg in par.targets:
                        if isinstance(tg, ast.Name):
                            hoisted.append(tg.id)
    free_in_init = {x.id for x in ast.walk(inner.node) if isinstance(x, ast.Name) and isinstance(x.ctx, ast.Load)}
    r.instances += 1
    shared = [h for h in hoisted if h in free_in_init and h not in {a.arg for a in inner.node.args.args}]
    # `default` computed at class creation only feeds the Signature (display); it must not be read by __init__
    if shared:
        r.fail(INIT, f"reads {shared} computed at class creation", inner.loc(),
               "a factory product made once at class creation is used by every instance (shared mutable default)")
    else:
        r.ok()
    return r


def rule_c14_r2(model: Model) -> RuleResult:
    r = RuleResult('C14-R2', 'every supplied constructor argument is converted to its field type unless unchecked', floor=3)
    f = model.func(INIT)
    cfg = cfg_of(model, f)
    nz = Normalizer(model, f, cfg, param_map=_pm(f))
    r.analysed.add(f.qualname)
    conv_nodes = []
    for n in cfg.live_nodes():
        for root in node_exprs(n):
            for c in walk_no_nested(root):
                if isinstance(c, ast.Call) and model.resolve(c.func, f.module, f) == 'pane.convert.convert':
                    conv_nodes.append((n, c))
    r.instances += 1
    if len(conv_nodes) != 1:
        r.fail(INIT, f"{len(conv_nodes)} convert() calls", f.loc(), "the generated __init__ must convert each bound argument exactly once")
        return r
    n, c = conv_nodes[0]
    args = [nz.expr(a, n) for a in c.args]
    r.sample({'convert': args})
    kws = {k.arg: nz.expr(k.value, n) for k in c.keywords}
    if kws.get('custom') not in (None, 'None') or len(args) > 2 or any(k is None for k in kws):
        r.fail(INIT, f"convert(..., {', '.join(f'{k}={v}'[:60] for k, v in kws.items())})", f.loc(c),
               "the constructor converts its arguments with handlers of its own: they are applied as call-level handlers, which outrank the "
               "handlers of nested dataclasses, so Outer(...) and Outer.from_data(...) convert the same field differently")
    elif len(args) >= 2 and re.match(r'^(PHI\()?.*bound_args|.*\.arguments\[ELEM\(self\.__pane_info__\.fields\)\.name\]', args[0]) and args[1] == 'ELEM(self.__pane_info__.fields).type':
        r.ok()
    else:
        r.fail(INIT, f"convert({', '.join(args)[:120]})", f.loc(c), "the argument is not converted to the type of the field it is bound to")
    # conditions under which the conversion happens: only `checked`, `name in bound_args`, `f.init`
    r.instances += 1
    allowed = re.compile(r'^(not )?(TRUTHY\(\$kwargs\.pop\(\'_pane_checked\', True\)\)|ELEM\(self\.__pane_info__\.fields\)\.name in .*|TRUTHY\(ELEM\(self\.__pane_info__\.fields\)\.init\)|None is \$kwargs\.pop\(\'_pane_from_dict\', None\)|\$kwargs\.pop\(\'_pane_from_dict\', None\) is None)$')
    lits = []
    byid = {x.id: x for x in cfg.nodes}
    for (aid, lb) in sorted(cfg.conditions_of(n)):
        a = byid[aid]
        if a.kind == 'cond':
            text, pos = nz.literal(a.ast, a)
            lits.append(('' if pos == (lb == 'T') else 'not ') + text)
    r.sample({'conversion happens when': lits})
    extra = [x for x in lits if not allowed.match(x)]
    if extra:
        r.fail(INIT, f"conversion also depends on {extra}", f.loc(c),
               "some supplied arguments are stored without conversion although the constructor is the checked one "
               "(only make_unchecked may store verbatim)")
    elif not any('_pane_checked' in x and not x.startswith('not ') for x in lits):
        r.fail(INIT, 'conversion not controlled by the checked flag', f.loc(c), "make_unchecked would convert, or the checked constructor would not")
    else:
        r.ok()
    # make_unchecked passes _pane_checked=False and nothing else special
    mu = model.func('pane.classes._make_init.make_unchecked')
    r.instances += 1
    r.analysed.add(mu.qualname)
    src = unparse(mu.node)
    if re.search(r'cls\(\*args, \*\*kwargs, _pane_checked=False\)', src):
        r.ok()
    else:
        r.fail(mu.qualname, 'make_unchecked body', mu.loc(), "make_unchecked must construct through cls(*args, **kwargs, _pane_checked=False)")
    return r


def rule_c14_r3(model: Model) -> RuleResult:
    r = RuleResult('C14-R3', 'the set-field record holds exactly the supplied fields on every construction path', floor=4)
    f = model.func(INIT)
    cfg = cfg_of(model, f)
    nz = Normalizer(model, f, cfg, param_map=_pm(f))
    r.analysed.add(f.qualname)
    # the record: the local stored under PANE_SET_FIELDS on the ordinary (non from-dict) path
    rec_names: t.Set[str] = set()
    for n in cfg.live_nodes():
        for root in node_exprs(n):
            for c in walk_no_nested(root):
                if isinstance(c, ast.Call) and unparse(c.func) == 'object.__setattr__' and len(c.args) == 3 \
                        and nz.expr(c.args[1], n) == "'__pane_set__'" and isinstance(c.args[2], ast.Name):
                    rec_names.add(c.args[2].id)
    adds = []
    for n in cfg.live_nodes():
        for root in node_exprs(n):
            for c in walk_no_nested(root):
                if isinstance(c, ast.Call) and isinstance(c.func, ast.Attribute) and c.func.attr == 'add' and isinstance(c.func.value, ast.Name) \
                        and c.func.value.id in rec_names:
                    adds.append((n, c))
    r.instances += 1
    if not adds:
        r.fail(INIT, 'no set_fields.add', f.loc(), "the constructor does not record which fields were supplied")
    for (n, c) in adds:
        key = nz.expr(c.args[0], n) if c.args else '?'
        ok = False
        for a in cfg.nodes:
            if a.kind == 'cond':
                text, pos = nz.literal(a.ast, a)
                if re.match(r'^ELEM\(self\.__pane_info__\.fields\)\.name in ', text) and a.edge('T' if pos else 'F') \
                        and cfg.edge_dominates(a, 'T' if pos else 'F', n):
                    ok = True
        if ok and key == 'ELEM(self.__pane_info__.fields).name':
            r.ok()
        else:
            r.fail(INIT, f"set_fields.add({key})", f.loc(c), "a field is recorded as explicitly set although it was not among the supplied arguments (or vice versa)")
    # struct path: record computed from the converted values *before* defaults are filled in
    s = model.func(STRUCT)
    scfg = cfg_of(model, s)
    snz = Normalizer(model, s, scfg)
    r.analysed.add(s.qualname)
    r.instances += 1
    calls = [(n, c) for n in scfg.live_nodes() for root in node_exprs(n) for c in walk_no_nested(root)
             if isinstance(c, ast.Call) and isinstance(c.func, ast.Attribute) and c.func.attr == 'from_dict_unchecked']
    if len(calls) != 1:
        raise AnalysisError(f"{s.loc()}: try_convert_struct: expected one from_dict_unchecked call, found {len(calls)}")
    n, c = calls[0]
    kw = {k.arg: k.value for k in c.keywords}
    sf = kw.get('set_fields')
    if sf is None:
        r.fail(STRUCT, 'set_fields not passed', s.loc(c), "the mapping path does not tell the instance which fields were supplied: all fields (defaults included) count as set")
    else:
        # the definition(s) of the value must precede the default-filling loop
        default_fill = [x for x in scfg.live_nodes() if x.kind == 'stmt' and isinstance(x.ast, ast.Assign)
                        and any('default' in unparse(x.ast.value) for _ in [0])
                        and any(isinstance(tg, ast.Subscript) for tg in x.ast.targets)]
        rd = scfg.reaching()
        ok = True
        why = ''
        if isinstance(sf, ast.Name):
            # a record filled element by element must be filled with field names (not with the keys of the input)
            from .pairs import Accumulators
            sacc = Accumulators(model, s, scfg)
            if sf.id in sacc.names:
                for (fn_, _st, key_, _v) in sacc.fills.get(sf.id, []):
                    kf = snz.expr(key_, fn_) if key_ is not None else '#'
                    if not kf.endswith('.name'):
                        ok = False
                        why = f"filled with {kf}, which is the key found in the data, not the field's name"
            defs = rd.at(n, sf.id)
            if not defs:
                ok = False
                why = 'undefined'
            for d in defs:
                if not ok:
                    break
                if d.kind != 'assign' or not re.match(r'^set\(', unparse(d.value)):
                    ok = False
                    why = f"defined as {unparse(d.value)[:40] if d.value is not None else d.kind}"
                for df in default_fill:
                    if scfg.node_dominates(df, d.node) or any(lp in d.node.loop_of for lp in df.loop_of):
                        ok = False
                        why = 'computed after (or while) defaults are filled in'
                    if not scfg.node_dominates(d.node, df):
                        ok = False
                        why = 'not computed before the defaults are filled in'
        else:
            form = snz.expr(sf, n)
            if 'default' in form:
                ok = False
                why = form
        r.sample({'struct path record': unparse(sf), 'ok': ok})
        if ok:
            r.ok()
        else:
            r.fail(STRUCT, f"set_fields={unparse(sf)} ({why})", s.loc(c), "the record of supplied fields includes defaulted fields on the mapping path")
    # from_dict_unchecked hands the record to the constructor, which installs a copy of it *before* __post_init__ runs: nothing
    # rewrites the record once the hook has seen (and possibly extended) it
    fd = model.func('pane.classes._make_init.from_dict_unchecked')
    fcfg = cfg_of(model, fd)
    fnz = Normalizer(model, fd, fcfg, param_map=_pm(fd))
    r.analysed.add(fd.qualname)
    r.instances += 1
    late = [c for c in ast.walk(fd.node) if isinstance(c, ast.Call) and unparse(c.func) == 'object.__setattr__' and len(c.args) == 3
            and fnz.expr(c.args[1], fcfg.entry) == "'__pane_set__'"]
    ctor = [c for c in ast.walk(fd.node) if isinstance(c, ast.Call) and any(k.arg == '_pane_from_dict' for k in c.keywords)]
    fwd = [k for c in ctor for k in c.keywords if k.arg and k.arg != '_pane_from_dict' and unparse(k.value) == 'set_fields']
    r.sample({'from_dict_unchecked': {'constructor calls': [unparse(c)[:80] for c in ctor], 'stores after construction': len(late)}})
    if late:
        r.fail(fd.qualname, 'the record is stored after the instance was constructed', fd.loc(late[0]),
               "__post_init__ has already run by then: it saw another record (every key of the dictionary, defaults included) than the "
               "diagnostic pass and the constructor show it, and whatever it recorded by assigning attributes is overwritten - "
               "Cls.from_data(...) and Cls(...) report different set-fields, and a hook that reads the record makes the two passes disagree")
    elif len(ctor) != 1 or not fwd:
        r.fail(fd.qualname, 'set_fields is not handed to the constructor', fd.loc(),
               "the mapping path does not tell the instance which fields were supplied: all fields (defaults included) count as set")
    else:
        r.ok()
    # the constructor's from-dict branch: a copy of the given record, or of the dictionary's keys when none is given (`is None`)
    r.instances += 1
    kwname = fwd[0].arg if fwd else '_pane_set_fields'
    stored = []
    for n in cfg.live_nodes():
        for root in node_exprs(n):
            for c in walk_no_nested(root):
                if isinstance(c, ast.Call) and unparse(c.func) == 'object.__setattr__' and len(c.args) == 3 \
                        and nz.expr(c.args[1], n) == "'__pane_set__'" and not isinstance(c.args[2], ast.Name):
                    stored.append((n, c, nz.expr(c.args[2], n)))
                elif isinstance(c, ast.Call) and unparse(c.func) == 'object.__setattr__' and len(c.args) == 3 \
                        and nz.expr(c.args[1], n) == "'__pane_set__'" and f"'{kwname}'" in nz.expr(c.args[2], n):
                    stored.append((n, c, nz.expr(c.args[2], n)))
    r.sample({'from-dict branch stores': [x[2][:120] for x in stored]})
    good = [x for x in stored if f"'{kwname}'" in x[2]]
    if not good:
        r.fail(INIT, f"the constructor ignores {kwname}", f.loc(), "the record given to from_dict_unchecked never reaches the instance")
    else:
        from .agreement import _split_phi
        form = next((a for a in _split_phi(good[0][2]) if f"'{kwname}'" in a), good[0][2])
        if not re.match(r'^(set|frozenset)\(', form) and '.copy()' not in form:
            r.fail(INIT, f"record stored without copy: {form[:80]}", f.loc(good[0][1]),
                   "the instance shares its set-field record with the caller (and with copies of itself)")
        elif not re.search(r"(None is \$kwargs\.pop\('%s', None\)|\$kwargs\.pop\('%s', None\) is None)" % (kwname, kwname), form) \
                and not any(re.search(r"(None is \$kwargs\.pop\('%s', None\)|\$kwargs\.pop\('%s', None\) is None)" % (kwname, kwname),
                                      nz.literal(x.ast, x)[0]) for x in cfg.nodes if x.kind == 'cond'):
            r.fail(INIT, f"tests {form[:100]}", f.loc(good[0][1]),
                   "the supplied record must be applied whenever it is given (`is not None`): a truthiness test ignores the empty record, "
                   "so Cls.from_data({}) reports every field as explicitly set")
        else:
            r.ok()
    return r


def rule_c14_r4(model: Model) -> RuleResult:
    r = RuleResult('C14-R4', '__post_init__ runs on every exit of the generated constructor', floor=1)
    f = model.func(INIT)
    cfg = cfg_of(model, f)
    nz = Normalizer(model, f, cfg, param_map=_pm(f))
    r.analysed.add(f.qualname)
    hook_calls = []
    for n in cfg.live_nodes():
        for root in node_exprs(n):
            for c in walk_no_nested(root):
                if isinstance(c, ast.Call) and nz.expr(c.func, n) in ("self.__post_init__", "getattr(self, '__post_init__')"):
                    hook_calls.append(n)
    rets = [n for n in cfg.live_nodes() if n.kind == 'return']
    if not rets:
        raise AnalysisError(f"{f.loc()}: generated __init__ has no normal exit")
    for rn in rets:
        r.instances += 1
        # every path to this exit passes the hasattr(self, POST_INIT) test, and the hook call dominates the exit on its true branch
        guards = [a for a in cfg.nodes if a.kind == 'cond' and nz.literal(a.ast, a)[0] == 'hasattr(self.__post_init__)' and cfg.node_dominates(a, rn)]
        ok = False
        for g in guards:
            pos = nz.literal(g.ast, g)[1]
            tl = 'T' if pos else 'F'
            # on the true branch a hook call lies between the guard and the exit
            for h in hook_calls:
                if cfg.edge_dominates(g, tl, h) and rn.id in cfg.reachable(h):
                    # and the exit cannot be reached from the true edge while avoiding the call
                    tnode = g.edge(tl)[0] if g.edge(tl) else None
                    if tnode is not None and rn.id not in cfg.reachable(tnode, skip_node=h.id) or tnode is h:
                        ok = True
        r.sample({'exit line': rn.lineno, 'runs hook': ok})
        if ok:
            r.ok()
        else:
            r.fail(INIT, f"exit at line {rn.lineno} skips __post_init__", f.loc(rn.ast) if rn.ast is not None else f.loc(),
                   "instances created on this path are never validated / completed by __post_init__")
    return r


def rule_c14_r7(model: Model) -> RuleResult:
    """C14: values converted by the field converters are stored as they are: the data paths build the instance with the unchecked
    constructors, never with the checked one (which would serialise and convert every item a second time)."""
    r = RuleResult('C14-R7', 'the conversion passes assemble the dataclass from converted values through the unchecked constructors only', floor=4)
    from ..family import conversion_zone
    cls = model.cls('pane.classes.PaneConverter')
    for f in conversion_zone(model)[cls.qualname]:
        if f.name == 'into_data':
            continue
        cfg = cfg_of(model, f)
        nz = Normalizer(model, f, cfg)
        for n in cfg.live_nodes():
            for root in node_exprs(n):
                for c in walk_no_nested(root):
                    if not isinstance(c, ast.Call):
                        continue
                    fn = nz.expr(c.func, n)
                    if fn == 'self.cls' or fn.startswith('self.cls.'):
                        r.instances += 1
                        r.analysed.add(f.qualname)
                        r.sample({'function': f.qualname, 'constructs with': fn})
                        if fn in ('self.cls.make_unchecked', 'self.cls.from_dict_unchecked'):
                            r.ok()
                        else:
                            r.fail(f.qualname, f"{fn}(...)", f.loc(c),
                                   "already converted field values are passed through the checked constructor: every item is serialised and "
                                   "converted again, so nested instances lose their set-field record and values whose output layout is not an "
                                   "enabled input layout are refused by position but accepted by name")
    return r


def rule_c14_r8(model: Model) -> RuleResult:
    """C14: dict(set_only=True) lists exactly the supplied fields (the set-field record), nothing filtered out."""
    r = RuleResult('C14-R8', 'dict(set_only=True) ranges over the set-field record itself, with no further filter', floor=1)
    f = model.func('pane.classes.PaneBase.dict')
    cfg = cfg_of(model, f)
    nz = Normalizer(model, f, cfg, param_map=_pm(f))
    r.analysed.add(f.qualname)
    # the record: what the generated constructor stores with object.__setattr__(self, <key>, ...)
    m = model.module('pane.classes')
    rec = None
    for c in ast.walk(model.func(INIT).node):
        if isinstance(c, ast.Call) and unparse(c.func) == 'object.__setattr__' and len(c.args) == 3 and isinstance(c.args[1], ast.Name) \
                and isinstance(m.assign_values.get(c.args[1].id), ast.Constant):
            rec = m.assign_values[c.args[1].id].value      # type: ignore[union-attr]
    if rec is None:
        raise AnalysisError(f"{f.loc()}: the set-field record key was not found in the generated constructor")
    found = False
    rec_forms = (repr(rec), f"self.{rec}")
    # the function specialised for set_only=True (whatever shape the branch has: early return, if/else, conditional expression)
    from .agreement import specialize
    flag = next((p_ for p_ in f.params if p_ == 'set_only'), None)
    if flag is None:
        raise AnalysisError(f"{f.loc()}: PaneBase.dict has no set_only parameter")

    def oracle(test: ast.expr) -> t.Optional[bool]:
        if isinstance(test, ast.Name) and test.id == flag:
            return True
        if isinstance(test, ast.UnaryOp) and isinstance(test.op, ast.Not):
            v = oracle(test.operand)
            return None if v is None else not v
        if isinstance(test, ast.Compare) and len(test.ops) == 1 and isinstance(test.left, ast.Name) and test.left.id == flag \
                and isinstance(test.comparators[0], ast.Constant) and isinstance(test.comparators[0].value, bool):
            same = isinstance(test.ops[0], (ast.Is, ast.Eq))
            return (test.comparators[0].value is True) == same
        return None
    sf = specialize(model, f, oracle)
    scfg = CFG(model, sf)
    snz = Normalizer(model, sf, scfg, param_map=_pm(sf))
    for n in scfg.live_nodes():
        if n.kind != 'return' or n.ast is None or n.ast.value is None:
            continue
        form = snz.expr(n.ast.value, n)
        found = True
        r.instances += 1
        r.sample({'dict(set_only=True) returns': form[:160]})
        uses_record = any(x in form for x in rec_forms)
        filtered = ' if ' in form and '.exclude' in form
        if uses_record and not filtered:
            r.ok()
        else:
            r.fail(f.qualname, f"returns {form[:120]}", f.loc(n.ast),
                   "the record of supplied fields is filtered or replaced: a supplied field (e.g. one declared exclude=True) is missing from "
                   "dict(set_only=True), or an unsupplied one appears")
    if not found:
        raise AnalysisError(f"{f.loc()}: no return under set_only found in PaneBase.dict")
    return r
