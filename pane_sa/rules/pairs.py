"""C03: sibling agreement between the fast pass (try_convert) and the diagnostic pass (collect_errors).

For every class of the Converter family the *verdict atoms* of both passes are extracted and must be
equal (DESIGN §5):

  GATE(literal, polarity)   an atomic branch condition that controls (control dependence, transitively)
                            a rejecting exit, a delegation to a sub-converter or a guarded call
  SUB(receiver, argument)   a delegation to a sub-converter
  GUARDED(callee, classes)  a possibly-raising operation executed under an ``except`` clause for foreign
                            exceptions (anything other than ParseInterrupt / ConvertError)

Helper methods reached through ``self`` are inlined (parameters substituted), locals are replaced by their
definitions and loop variables by their provenance, so the comparison is insensitive to naming, to
``if a or b`` vs two ``if``s, and to the accumulate-then-test idiom of the diagnostic passes.
"""
from __future__ import annotations

import ast
import typing as t

from ..cfg import CFG, Node, cfg_of, handler_classes, node_exprs, walk_no_nested
from ..family import (CONVERT_ERROR, CONVERTER, PI, SUB_METHODS, family, find_subcalls, is_subconv_form,
                      subconv_attrs, walk_with_bindings)
from ..model import AnalysisError, ClassInfo, FuncInfo, Model, unparse
from ..norm import Normalizer
from ..report import RuleResult

TOTAL_BUILTINS = {
    'len', 'isinstance', 'issubclass', 'iter', 'next', 'tuple', 'list', 'set', 'dict', 'frozenset', 'zip', 'enumerate',
    'map', 'filter', 'str', 'repr', 'type', 'getattr', 'hasattr', 'print', 'sorted', 'all', 'any', 'bool', 'id',
    'reversed', 'range', 'min', 'max', 'sum',
}
NON_VERDICT_METHODS = {'expected', 'expected_struct', 'expected_tuple', 'tag_expected', 'obj_expected', 'into_data'}
UNCHECKED_CTORS = {'make_unchecked', 'from_dict_unchecked'}
EMPTY_CTORS = {'set', 'dict', 'list'}
FILL_METHODS = {'add': 0, 'append': 0, 'update': 0, 'setdefault': 0, 'extend': 0, 'insert': 1}


class Atoms:
    def __init__(self) -> None:
        self.d: t.Dict[t.Tuple[str, ...], t.List[str]] = {}

    def add(self, key: t.Tuple[str, ...], loc: str) -> None:
        self.d.setdefault(key, [])
        if loc not in self.d[key]:
            self.d[key].append(loc)

    def keys(self) -> t.Set[t.Tuple[str, ...]]:
        return set(self.d)


def error_node_classes(model: Model) -> t.Set[str]:
    return {q for q in model.classes if model.is_subclass(q, 'pane.errors.ErrorNode')}


def builds_error_node(model: Model, func: FuncInfo, v: t.Optional[ast.AST], depth: int = 0) -> bool:
    """``v`` is a constructor call of the ErrorNode family, or a call of a package helper (module-level function or method of the
    same class) all of whose returns are such constructions: an extracted `_make_error(...)` helper is as good as the constructor."""
    if not isinstance(v, ast.Call) or depth > 3:
        return False
    errs = error_node_classes(model)
    q = model.resolve(v.func, func.module, func)
    if q in errs:
        return True
    g: t.Optional[FuncInfo] = model.functions.get(q or '')
    if g is None and isinstance(v.func, ast.Attribute) and isinstance(v.func.value, ast.Name) and func.cls is not None and func.params \
            and v.func.value.id == func.params[0]:
        g = model.find_method(func.cls.qualname, v.func.attr)
    if g is None or g is func or not isinstance(g.node, ast.FunctionDef):
        return False
    rets = [x for x in ast.walk(g.node) if isinstance(x, ast.Return) and model.enclosing_function(x) is g]
    return bool(rets) and all(builds_error_node(model, g, x.value, depth + 1) for x in rets)


class Accumulators:
    """Locals initialised to an empty container and filled later (children / extra / seen / values ...)."""

    def __init__(self, model: Model, func: FuncInfo, cfg: CFG):
        self.model = model
        self.func = func
        self.cfg = cfg
        rd = cfg.reaching()
        self.names: t.Set[str] = set()
        for nm, defs in rd.by_name.items():
            if defs and all(d.kind == 'assign' and not d.path and _is_empty_container(d.value) for d in defs):
                self.names.add(nm)
        self.fills: t.Dict[str, t.List[t.Tuple[Node, ast.AST, t.Optional[ast.expr], t.Optional[ast.expr]]]] = {n: [] for n in self.names}
        for n in cfg.nodes:
            if n.kind != 'stmt' or n.ast is None:
                continue
            a = n.ast
            if isinstance(a, ast.Assign):
                for tg in a.targets:
                    if isinstance(tg, ast.Subscript) and isinstance(tg.value, ast.Name) and tg.value.id in self.names:
                        self.fills[tg.value.id].append((n, a, tg.slice, a.value))
            for sub in walk_no_nested(a):
                if isinstance(sub, ast.Call) and isinstance(sub.func, ast.Attribute) and isinstance(sub.func.value, ast.Name) \
                        and sub.func.value.id in self.names and sub.func.attr in FILL_METHODS:
                    arg = sub.args[FILL_METHODS[sub.func.attr]] if len(sub.args) > FILL_METHODS[sub.func.attr] else None
                    key = arg if sub.func.attr in ('add', 'setdefault') else None
                    self.fills[sub.func.value.id].append((n, sub, key, arg))
        self._desc: t.Dict[str, str] = {}

    def partial(self, n: Node) -> bool:
        """A fill is *partial* when it can be skipped by an exception that is swallowed (the handler lets
        control continue), i.e. the accumulator then misses elements that were seen."""
        for tr in n.tries:
            for h in tr.handlers:
                last = h.body[-1] if h.body else None
                if not isinstance(last, (ast.Raise, ast.Return)):
                    # does the fill statement itself (or something before it in the try body) possibly raise?
                    return True
        return False

    def descriptor(self, name: str, base: Normalizer) -> str:
        if name in self._desc:
            return self._desc[name]
        self._desc[name] = f"ACC:{name}"   # recursion guard
        keys = set()
        partial = False
        forms = []
        for (n, _stmt, key, _val) in self.fills.get(name, []):
            forms.append((base.expr(key, n) if key is not None else '#', self.partial(n)))
        # the input-derived content of the accumulator is what verdicts depend on: fills whose key comes
        # from the converted value; bookkeeping fills (defaults for absent fields) are left out
        derived = [(k, p) for (k, p) in forms if 'VAL' in k]
        for (k, p) in (derived or forms):
            keys.add(k)
            partial = partial or p
        d = 'ACC{' + ','.join(sorted(keys)) + ('}' if not partial else ';PARTIAL}')
        self._desc[name] = d
        return d


def _is_empty_container(v: t.Optional[ast.AST]) -> bool:
    if v is None:
        return False
    if isinstance(v, (ast.Dict, ast.List, ast.Set, ast.Tuple)):
        return (not v.keys) if isinstance(v, ast.Dict) else (not v.elts)
    if isinstance(v, ast.Call) and not v.args and not v.keywords:
        f = v.func
        while isinstance(f, ast.Subscript):
            f = f.value
        if isinstance(f, ast.Name) and f.id in EMPTY_CTORS:
            return True
    return False


class Extractor:
    def __init__(self, model: Model, cls: ClassInfo, mode: str):
        self.model = model
        self.cls = cls
        self.mode = mode            # 'try' | 'collect'
        self.attrs = subconv_attrs(model, cls)
        self.atoms = Atoms()
        self.stack: t.List[str] = []
        self.err_classes = error_node_classes(model)
        self.functions: t.List[str] = []
        self.exit_problems: t.List[t.Tuple[str, str, str]] = []   # (loc, construct, message) for C03-R3
        self.raw_reject: t.List[t.Tuple[str, bool, str]] = []     # literals directly controlling a rejecting site
        self.raw_context: t.List[t.Tuple[str, bool, str]] = []    # every other literal on the way to a site
        self.raw_subs: t.List[t.Tuple[str, str, t.List[str], str]] = []
        self._finalized = False

    # ------------------------------------------------------------------ driver

    def run(self, func: FuncInfo, param_map: t.Optional[t.Dict[str, str]] = None) -> bool:
        """Extract atoms of ``func`` (inlined under ``param_map``); returns whether it contributed any atom."""
        if func.qualname in self.stack:
            return True      # recursive helper: its atoms are being collected further up the stack
        self.stack.append(func.qualname)
        if func.qualname not in self.functions:
            self.functions.append(func.qualname)
        before = len(self.atoms.d) + len(self.raw_reject) + len(self.raw_context) + len(self.raw_subs)
        try:
            self._run(func, param_map or {})
        finally:
            self.stack.pop()
        return len(self.atoms.d) + len(self.raw_reject) + len(self.raw_context) + len(self.raw_subs) > before

    def finalize(self) -> 'Extractor':
        """Turn the raw records into atoms.

        REJECT literals (direct control dependences of a rejecting exit / of a fill of an error accumulator) keep their
        polarity.  Any other literal on the way to a site is kept (with polarity) only if the pass never rejects on
        that literal directly: otherwise it is a 'survivor' condition of an earlier rejection (`if a: reject` ... later
        code runs under `not a`), which the early-exit style of the fast pass and the accumulate-then-test style of the
        diagnostic pass order differently, as do `if a or b` and its split form."""
        if self._finalized:
            return self
        self._finalized = True
        rg = {t_ for (t_, _p, _l) in self.raw_reject}
        for (text, pol, loc) in self.raw_reject:
            self.atoms.add(('GATE', text, '+' if pol else '-'), loc)
        for (text, pol, loc) in self.raw_context:
            if text not in rg:
                self.atoms.add(('GATE', text, '+' if pol else '-'), loc)
        for (recv, arg, ctx, loc) in self.raw_subs:
            kept = [x for x in ctx if (x[4:] if x.startswith('not ') else x) not in rg]
            self.atoms.add(('SUB', recv, arg, ' & '.join(kept)), loc)
        return self

    def _run(self, func: FuncInfo, param_map: t.Dict[str, str]) -> None:
        model = self.model
        cfg = cfg_of(model, func)
        acc = Accumulators(model, func, cfg)
        base = Normalizer(model, func, cfg, param_map=param_map)
        nz = Normalizer(model, func, cfg, param_map=param_map,
                        name_hook=lambda nm, node: acc.descriptor(nm, base) if nm in acc.names else None)
        live = cfg.reachable()
        sites: t.List[Node] = []
        reject_sites: t.Set[int] = set()

        # reject accumulators: those handed to an error node that is returned
        reject_acc: t.Set[str] = set()
        if self.mode == 'collect':
            for n in cfg.nodes:
                if n.id in live and n.kind == 'return' and n.ast is not None and n.ast.value is not None:
                    if self._is_error_ctor(n.ast.value, func):
                        for sub in ast.walk(n.ast.value):
                            if isinstance(sub, ast.Name) and sub.id in acc.names:
                                reject_acc.add(sub.id)

        for n in cfg.nodes:
            if n.id not in live:
                continue
            # (a) rejecting exits
            if n.kind == 'raise':
                cls = cfg.raised_class(n.ast) if n.ast is not None else None
                if self.mode == 'collect' and cls == PI:
                    self.exit_problems.append((func.loc(n.ast), 'raise ParseInterrupt', 'the diagnostic pass raises ParseInterrupt itself'))
                sites.append(n)
                reject_sites.add(n.id)
            elif n.kind == 'return' and self.mode == 'collect' and n.ast is not None and n.ast.value is not None:
                v = n.ast.value
                if not (isinstance(v, ast.Constant) and v.value is None):
                    if self._is_error_ctor(v, func):
                        sites.append(n)
                        reject_sites.add(n.id)
            # (b) fills of reject accumulators
            if self.mode == 'collect':
                for nm in reject_acc:
                    for (fn_node, _st, _k, _v) in acc.fills.get(nm, []):
                        if fn_node is n:
                            sites.append(n)
                            reject_sites.add(n.id)

        # (c) sub-converter delegations
        pending_subs: t.List[t.Tuple[t.Any, t.List[str]]] = []
        for sc in find_subcalls(model, self.cls, func, nz, cfg, self.attrs):
            if sc.node.id not in live or sc.method == 'into_data':
                continue
            ctx = self._necessary_literals(sc.node, sc.call, func, cfg, nz, acc, reject_acc)
            pending_subs.append((sc, ctx))
            sites.append(sc.node)

        # (d) helper calls on self (inlined)
        for n in cfg.nodes:
            if n.id not in live:
                continue
            for root in node_exprs(n):
                for sub, bound in walk_with_bindings(root, nz, n):
                    callee, args = self._helper_ref(sub, func, nz, n, bound)
                    if callee is None:
                        continue
                    pm = {}
                    cparams = callee.params
                    is_static = any(isinstance(d, ast.Name) and d.id == 'staticmethod' for d in callee.decorators)
                    if not is_static and cparams:
                        pm[cparams[0]] = 'self'
                        cparams = cparams[1:]
                    for p, a in zip(cparams, args):
                        pm[p] = a
                    if self.run(callee, pm):
                        sites.append(n)

        # (e) foreign handlers
        for n in cfg.nodes:
            if n.id not in live or n.kind != 'handler':
                continue
            hc = handler_classes(model, func, n.ast)  # type: ignore[arg-type]
            if hc is None:
                raise AnalysisError(f"{func.loc(n.ast)}: cannot resolve exception classes of handler")
            foreign = sorted(c for c in hc if c not in (PI, CONVERT_ERROR))
            if not foreign:
                continue
            tr: ast.Try = n.extra['try']
            ops = self._guarded_ops(tr, func, nz, cfg)
            for op in ops:
                self.atoms.add(('GUARDED', op, ','.join(_short(c) for c in foreign)), func.loc(n.ast))
            sites.append(n)
            # the guarded operations themselves are reached under conditions too
            for st in tr.body:
                nn = cfg.node_of(st) or next((cfg.node_of(s) for s in ast.walk(st) if cfg.node_of(s) is not None), None)
                if nn is not None and nn.id in live:
                    sites.append(nn)

        # literals of every site
        seen_sites: t.Set[int] = set()
        for s_ in sites:
            if s_.id in seen_sites:
                continue
            seen_sites.add(s_.id)
            d, c = self._site_literals(s_, func, cfg, nz, acc, reject_acc)
            if s_.id in reject_sites:
                self.raw_reject += d
                self.raw_context += c
            else:
                self.raw_context += d + c
        for (sc, ctx) in pending_subs:
            self.raw_subs.append((sc.recv, sc.arg, ctx, func.loc(sc.call)))

    # ------------------------------------------------------------------ pieces

    def _is_exception_class(self, q: str) -> bool:
        import builtins as _b
        if q.startswith('builtins.'):
            o = getattr(_b, q.split('.', 1)[1], None)
            return isinstance(o, type) and issubclass(o, BaseException)
        return q in self.model.classes and any(c.startswith('builtins.') and self._is_exception_class(c)
                                               for c in self.model.mro(q))

    def _is_error_ctor(self, v: ast.expr, func: FuncInfo) -> bool:
        """Whether ``v`` certainly denotes an error node (a constructor call of the ErrorNode family)."""
        return builds_error_node(self.model, func, v)

    def _helper_ref(self, sub: ast.AST, func: FuncInfo, nz: Normalizer, n: Node, bound: t.Dict[str, str]
                    ) -> t.Tuple[t.Optional[FuncInfo], t.List[str]]:
        """self.helper(args) or map(self.helper, xs): returns (callee, normalised args)."""
        selfnames = {func.params[0]} if func.params and func.cls is not None else set()
        selfnames |= {self.cls.name}
        if func.cls is not None:
            selfnames.add(func.cls.name)
        if isinstance(sub, ast.Call):
            f = sub.func
            if isinstance(f, ast.Attribute) and isinstance(f.value, ast.Name) and f.value.id in selfnames:
                if f.attr in NON_VERDICT_METHODS or f.attr in SUB_METHODS and False:
                    return None, []
                callee = self.model.find_method(self.cls.qualname, f.attr)
                if callee is not None and callee.cls is not None and callee.cls.qualname != CONVERTER \
                        and isinstance(callee.node, ast.FunctionDef) and callee.name not in NON_VERDICT_METHODS:
                    if callee.name in ('convert',):
                        return None, []
                    return callee, [nz.expr(a, n, bound) for a in sub.args]
            # map(self.helper, xs)
            if isinstance(f, ast.Name) and f.id == 'map' and len(sub.args) == 2:
                g = sub.args[0]
                if isinstance(g, ast.Attribute) and isinstance(g.value, ast.Name) and g.value.id in selfnames:
                    callee = self.model.find_method(self.cls.qualname, g.attr)
                    if callee is not None and isinstance(callee.node, ast.FunctionDef):
                        return callee, [nz.iter_elem(sub.args[1], (), n, bound, 0)]
        return None, []

    def _guarded_ops(self, tr: ast.Try, func: FuncInfo, nz: Normalizer, cfg: CFG) -> t.List[str]:
        ops: t.Set[str] = set()
        for st in tr.body:
            n = None
            for s in ast.walk(st):
                n = cfg.node_of(s)
                if n is not None:
                    break
            for s0 in ast.walk(st):
                nn = cfg.node_of(s0) or n
                if nn is None:
                    continue
            for root in [st]:
                for sub in walk_no_nested(root):
                    nn = cfg.node_of(sub) or n
                    if nn is None:
                        continue
                    if isinstance(sub, ast.Call):
                        # bindings of comprehension variables are irrelevant for the callee text
                        callee = nz.expr(sub.func, nn, {})
                        short = callee[len('builtins.'):] if callee.startswith('builtins.') else callee
                        if short in TOTAL_BUILTINS or callee.startswith('traceback.') or callee.startswith('typing.'):
                            continue
                        if callee in self.err_classes:
                            continue    # building the error node is not part of the verdict
                        if self._is_exception_class(callee):
                            continue    # ``raise K()``: the raise itself is a site
                        if isinstance(sub.func, ast.Attribute) and sub.func.attr in NON_VERDICT_METHODS:
                            continue
                        if isinstance(sub.func, ast.Attribute) and sub.func.attr in SUB_METHODS and \
                                is_subconv_form(nz.expr(sub.func.value, nn, _loose_bindings(sub, nz, nn)), self.attrs):
                            continue
                        if isinstance(sub.func, ast.Attribute) and sub.func.attr in UNCHECKED_CTORS:
                            ops.add(f"UNCHECKED_CTOR({nz.expr(sub.func.value, nn, {})})")
                            continue
                        if isinstance(sub.func, ast.Attribute) and isinstance(sub.func.value, ast.Name) and \
                                nz.expr(sub.func.value, nn, {}).startswith('ACC{'):
                            continue    # bookkeeping on a local accumulator
                        ops.add(callee)
                    elif isinstance(sub, ast.Subscript) and isinstance(sub.ctx, ast.Load):
                        b = nz.expr(sub.value, nn, {})
                        if b.startswith('self.') or b.startswith('VAL'):
                            ops.add(b + '[]')
        return sorted(ops)

    def _site_literals(self, s: Node, func: FuncInfo, cfg: CFG, nz: Normalizer, acc: Accumulators,
                       reject_acc: t.Set[str]) -> t.Tuple[t.List[t.Tuple[str, bool, str]], t.List[t.Tuple[str, bool, str]]]:
        byid = {n.id: n for n in cfg.nodes}
        direct: t.List[t.Tuple[str, bool, str]] = []
        context: t.List[t.Tuple[str, bool, str]] = []
        dcd = cfg.control_deps().get(s.id, set())
        for (aid, lb) in sorted(cfg.conditions_of(s)):
            a = byid[aid]
            bucket = direct if (aid, lb) in dcd else context
            if a.kind == 'cond':
                for (text, pol) in self.expand_literal(a.ast, a, nz, lb == 'T', {}):
                    if self._skip_literal(text, acc, reject_acc, nz):
                        continue
                    bucket.append((text, pol, func.loc(a.ast)))
            elif a.kind == 'iter' and lb == 'T':
                for (text, pol) in self._loop_guards(a, nz):
                    direct.append((text, pol, func.loc(a.ast)))
        # guards of comprehensions / filters inside the site's own expressions
        for root in node_exprs(s):
            for (text, pol) in self._expr_guards(root, s, nz):
                direct.append((text, pol, func.loc(s.ast) if s.ast is not None else func.loc()))
        return direct, context

    def _necessary_literals(self, n: Node, call: ast.AST, func: FuncInfo, cfg: CFG, nz: Normalizer, acc: Accumulators,
                            reject_acc: t.Set[str]) -> t.List[str]:
        """Literals that necessarily hold whenever the delegation ``call`` at node ``n`` is executed: branch
        edges dominating ``n`` plus the guards of the loops / comprehensions / filters the call sits in."""
        byid = {x.id: x for x in cfg.nodes}
        lits: t.Set[str] = set()
        live = cfg.reachable()
        for a in cfg.nodes:
            if a.id not in live or len(a.succ) < 2:
                continue
            if a.kind == 'cond':
                for lb in ('T', 'F'):
                    if a.edge(lb) and cfg.edge_dominates(a, lb, n):
                        for (text, pol) in self.expand_literal(a.ast, a, nz, lb == 'T', {}):
                            if not self._skip_literal(text, acc, reject_acc, nz):
                                lits.add(('' if pol else 'not ') + text)
            elif a.kind == 'iter' and a.edge('T') and cfg.edge_dominates(a, 'T', n):
                for (text, pol) in self._loop_guards(a, nz):
                    lits.add(('' if pol else 'not ') + text)
        # guards of comprehensions enclosing the call inside its own statement
        for root in node_exprs(n):
            for comp in walk_no_nested(root):
                if isinstance(comp, (ast.GeneratorExp, ast.ListComp, ast.SetComp, ast.DictComp)) and \
                        any(x is call for x in ast.walk(comp)):
                    for (text, pol) in self._expr_guards(comp, n, nz):
                        lits.add(('' if pol else 'not ') + text)
        return sorted(lits)

    def _skip_literal(self, text: str, acc: Accumulators, reject_acc: t.Set[str], nz: Normalizer) -> bool:
        if 'EXC' in text:
            return True
        for m in ('.collect_errors(', '.convert(', '_collect_errors('):
            if m in text:
                return True     # a test on a sub-result (``node is not None``), implied by the SUB atom
        if text.startswith('TRUTHY(ACC{'):
            return True         # accumulate-then-test: represented by the atoms of the fill sites
        return False

    def _loop_guards(self, it_node: Node, nz: Normalizer) -> t.List[t.Tuple[str, bool]]:
        st = it_node.ast
        return self._expr_guards(st.iter, it_node, nz)  # type: ignore[attr-defined]

    def _expr_guards(self, root: ast.AST, node: Node, nz: Normalizer) -> t.List[t.Tuple[str, bool]]:
        out: t.List[t.Tuple[str, bool]] = []
        for sub, bound in walk_with_bindings(root, nz, node):
            hr = nz.helper_return(sub, node, bound) if isinstance(sub, ast.Call) else None
            if hr is not None:
                sub_nz, rv, rn = hr
                out += self._expr_guards(rv, rn, sub_nz)
                continue
            if isinstance(sub, ast.Name) and isinstance(sub.ctx, ast.Load) and sub.id not in bound and nz.rd.is_local(sub.id):
                # a local bound once to a (filtered) iterable: its filters apply to whoever iterates it
                defs_ = nz.rd.at(node, sub.id)
                if len(defs_) == 1 and defs_[0].kind == 'assign' and defs_[0].value is not None and not defs_[0].path \
                        and isinstance(defs_[0].value, (ast.Call, ast.GeneratorExp)) and defs_[0].node is not node:
                    out += self._expr_guards(defs_[0].value, defs_[0].node, nz)
                    continue
            if isinstance(sub, ast.Call) and isinstance(sub.func, ast.Name) and sub.func.id == 'filter' and len(sub.args) == 2 \
                    and isinstance(sub.args[0], ast.Lambda) and sub.args[0].args.args:
                lam = sub.args[0]
                b = dict(bound)
                b[lam.args.args[0].arg] = nz.iter_elem(sub.args[1], (), node, bound, 0)
                out += self.expand_literal(lam.body, node, nz, True, b)
            if isinstance(sub, (ast.GeneratorExp, ast.ListComp, ast.SetComp, ast.DictComp)):
                b = dict(bound)
                for g in sub.generators:
                    b, _ = nz.comp_bindings([g], node, b, 0)
                    for c in g.ifs:
                        out += self.expand_literal(c, node, nz, True, b)
        return out

    def expand_literal(self, test: ast.AST, node: Node, nz: Normalizer, want: bool,
                       bound: t.Dict[str, str]) -> t.List[t.Tuple[str, bool]]:
        """Atomic literals (text, polarity) of a condition that is required to be ``want``.
        Boolean structure is flattened (the rule compares atom sets, not formulas)."""
        if isinstance(test, ast.BoolOp):
            out: t.List[t.Tuple[str, bool]] = []
            for v in test.values:
                out += self.expand_literal(v, node, nz, want, bound)
            return out
        if isinstance(test, ast.UnaryOp) and isinstance(test.op, ast.Not):
            return self.expand_literal(test.operand, node, nz, not want, bound)
        if isinstance(test, ast.Compare) and len(test.ops) > 1:
            out = []
            left = test.left
            for op, right in zip(test.ops, test.comparators):
                out += self.expand_literal(ast.Compare(left=left, ops=[op], comparators=[right]), node, nz, want, bound)
                left = right
            return out
        if isinstance(test, ast.Call) and isinstance(test.func, ast.Attribute) and not test.args and not test.keywords:
            inl = self._inline_bool_helper(test, node, nz, bound)
            if inl is not None:
                sub_nz, body, sub_node = inl
                return Extractor.expand_literal(self, body, sub_node, sub_nz, want, {})
        text, pos = nz.literal(test, node, bound)
        return [(text, pos == want)]

    def _inline_bool_helper(self, call: ast.Call, node: Node, nz: Normalizer, bound: t.Dict[str, str]):
        mname = call.func.attr  # type: ignore[attr-defined]
        owners = [c for c in self.model.classes.values() if mname in c.methods]
        if len(owners) != 1:
            return None
        f = owners[0].methods[mname]
        if not isinstance(f.node, ast.FunctionDef) or len(f.params) != 1:
            return None
        body = [s for s in f.node.body if not (isinstance(s, ast.Expr) and isinstance(s.value, ast.Constant))]
        if len(body) != 1 or not isinstance(body[0], ast.Return) or body[0].value is None:
            return None
        if not isinstance(body[0].value, (ast.BoolOp, ast.Compare, ast.UnaryOp)):
            return None
        recv = nz.expr(call.func.value, node, bound)  # type: ignore[attr-defined]
        sub_cfg = cfg_of(self.model, f)
        sub_nz = Normalizer(self.model, f, sub_cfg, param_map={f.params[0]: recv}, inline_unique_methods=False)
        rn = [n for n in sub_cfg.nodes if n.kind == 'return' and n.ast is not None]
        if len(rn) != 1:
            return None
        return sub_nz, body[0].value, rn[0]


def _loose_bindings(sub: ast.AST, nz: Normalizer, node: Node) -> t.Dict[str, str]:
    return {}


def _short(q: str) -> str:
    return q.split('.')[-1]


def pass_entry(model: Model, cls: ClassInfo, name: str) -> FuncInfo:
    f = model.find_method(cls.qualname, name)
    if f is None or (f.cls is not None and f.cls.qualname == CONVERTER):
        raise AnalysisError(f"{cls.qualname} has no concrete {name}")
    return f


def extract_pair(model: Model, cls: ClassInfo) -> t.Tuple[Extractor, Extractor]:
    et = Extractor(model, cls, 'try')
    et.run(pass_entry(model, cls, 'try_convert'))
    et.finalize()
    ec = Extractor(model, cls, 'collect')
    ec.run(pass_entry(model, cls, 'collect_errors'))
    ec.finalize()
    return et, ec


def fmt_atom(k: t.Tuple[str, ...]) -> str:
    if k[0] == 'GATE':
        return f"GATE[{'' if k[2] == '+' else 'not '}{k[1]}]"
    if k[0] == 'SUB':
        return f"SUB[{k[1]} <- {k[2]}" + (f" when {k[3]}]" if len(k) > 3 and k[3] else ']')
    return f"GUARDED[{k[1]} under except {k[2]}]"


def rule_c03_r1_for(model: Model, class_names: t.Sequence[str]) -> RuleResult:
    return rule_c03_r1(model, class_names)


def rule_c03_r1(model: Model, only: t.Optional[t.Sequence[str]] = None) -> RuleResult:
    """Pass agreement, decided as equality of Boolean reject predicates (see rejectpred.py) plus equality of the
    sets of guarded operations with their handler classes."""
    from .rejectpred import compare_passes
    r = RuleResult('C03-R1', 'try_convert and collect_errors reject under the same conditions, per Converter class',
                   floor=18 if only is None else len(only))
    for cls in family(model):
        if only is not None and cls.name not in only:
            continue
        res = compare_passes(model, cls)
        r.instances += 1
        r.analysed.update(res['functions'])
        r.sample({'class': cls.name, 'verdict_literals': len(res['vars']), 'truth_table_rows': 1 << len(res['vars']),
                  'equal': res['equal'], 'example_literal': res['vars'][0] if res['vars'] else None})
        if res['equal']:
            r.ok(max(1, len(res['vars'])))
        else:
            who = 'fast' if res['fast_rejects'] else 'diagnostic'
            other = 'diagnostic' if res['fast_rejects'] else 'fast'
            dep = res['depends_on']
            loc = next((res['locs'].get(v) for v in dep if res['locs'].get(v)), f"{cls.module.relpath}:{cls.node.lineno}")
            wt = ', '.join(res['witness_true']) or '(no literal true)'
            r.fail(cls.qualname, f"passes disagree; the disagreement depends on {'; '.join(dep[:5])}", loc,
                   f"the {who} pass rejects but the {other} pass accepts when exactly these literals hold: {wt[:300]} -- "
                   f"convert() would raise the internal RuntimeError, or an accepted value would get an error tree")
        gt, gc = res['guarded_try'], res['guarded_collect']
        for k in sorted(set(gt) & set(gc)):
            r.ok()
        for k in sorted(set(gt) - set(gc)):
            r.fail(cls.qualname, f"fast-only GUARDED[{k[0]} under except {k[1]}]", gt[k],
                   f"try_convert guards {k[0]} with `except {k[1]}` but collect_errors has no such guard: an exception class caught by "
                   f"one pass escapes the other")
        for k in sorted(set(gc) - set(gt)):
            r.fail(cls.qualname, f"diag-only GUARDED[{k[0]} under except {k[1]}]", gc[k],
                   f"collect_errors guards {k[0]} with `except {k[1]}` but try_convert has no such guard: an exception class caught by "
                   f"one pass escapes the other")
    return r


def rule_c03_r2(model: Model) -> RuleResult:
    """Driver shape: Converter.convert catches exactly ParseInterrupt around try_convert, then collect_errors;
    no subclass overrides convert; both passes come from the same class."""
    r = RuleResult('C03-R2', 'convert() is the only driver and combines the passes as documented', floor=19)
    conv = model.func(f'{CONVERTER}.convert')
    cfg = cfg_of(model, conv)
    r.analysed.add(conv.qualname)
    r.instances += 1
    # try body calls self.try_convert(val) and returns it; handlers == [ParseInterrupt] only
    tries = [s for s in ast.walk(conv.node) if isinstance(s, ast.Try)]
    ok = False
    for tr in tries:
        calls = [c for st in tr.body for c in ast.walk(st) if isinstance(c, ast.Call) and isinstance(c.func, ast.Attribute) and c.func.attr == 'try_convert']
        if not calls:
            continue
        hcs = [handler_classes(model, conv, h) for h in tr.handlers]
        if hcs == [[PI]]:
            ok = True
        else:
            r.fail(conv.qualname, f"handlers {hcs}", conv.loc(tr),
                   "the fast pass must be guarded by exactly `except ParseInterrupt` (anything wider hides foreign "
                   "exceptions, anything narrower lets ParseInterrupt escape)")
    if ok:
        r.ok()
    elif not r.findings:
        r.fail(conv.qualname, 'no try around try_convert', conv.loc(), "Converter.convert no longer wraps try_convert in try/except ParseInterrupt")
    # after the try: collect_errors is called and a ConvertError is raised with its result
    src_calls = [c.func.attr for c in ast.walk(conv.node) if isinstance(c, ast.Call) and isinstance(c.func, ast.Attribute)]
    raised = [cfg.raised_class(n.ast) for n in cfg.nodes if n.kind == 'raise' and n.ast is not None]
    if 'collect_errors' in src_calls and CONVERT_ERROR in raised:
        r.ok()
    else:
        r.fail(conv.qualname, 'collect_errors/ConvertError', conv.loc(), "convert() must call collect_errors after a ParseInterrupt and raise ConvertError(node)")
    for cls in family(model):
        r.instances += 1
        if 'convert' in cls.methods:
            r.fail(cls.qualname, 'overrides convert', cls.methods['convert'].loc(), "a Converter subclass overrides convert(): the two passes are no longer combined by the single driver")
        else:
            r.ok()
        ft = model.find_method(cls.qualname, 'try_convert')
        fc = model.find_method(cls.qualname, 'collect_errors')
        if ft is None or fc is None or ft.cls is None or fc.cls is None:
            r.fail(cls.qualname, 'missing pass', cls.module.relpath + f":{cls.node.lineno}", "class lacks one of the passes")
        elif ft.cls.qualname != fc.cls.qualname:
            r.fail(cls.qualname, f"try_convert from {ft.cls.name}, collect_errors from {fc.cls.name}", ft.loc(),
                   "one pass is overridden and the other inherited: the pair is no longer mirrored code")
        else:
            r.ok()
    return r


def rule_c03_r3(model: Model) -> RuleResult:
    """Exit typing: try_convert exits by return or ParseInterrupt; collect_errors returns None or an error
    node and never raises ParseInterrupt itself."""
    r = RuleResult('C03-R3', 'exits of the passes are well-typed (return / ParseInterrupt; None / error node)', floor=36)
    errs = error_node_classes(model)
    for cls in family(model):
        for mode, entry in (('try', 'try_convert'), ('collect', 'collect_errors')):
            ex = Extractor(model, cls, mode)
            f = pass_entry(model, cls, entry)
            ex.run(f)
            r.instances += 1
            for (loc, construct, msg) in ex.exit_problems:
                r.fail(f.qualname, construct, loc, msg)
            # explicit raises in the entry method itself
            cfg = cfg_of(model, f)
            live = cfg.reachable()
            for n in cfg.nodes:
                if n.id in live and n.kind == 'raise' and n.ast is not None and mode == 'try':
                    c = cfg.raised_class(n.ast)
                    if c != PI:
                        # allowed only if caught locally (routed to a handler)
                        if any(m.kind == 'raise_exit' for (_lb, m) in n.succ):
                            r.fail(f.qualname, f"raise {c}", f.loc(n.ast), "the fast pass signals rejection with an exception other than ParseInterrupt")
                        else:
                            r.ok()
                    else:
                        r.ok()
                if n.id in live and n.kind == 'return' and mode == 'collect' and n.ast is not None and n.ast.value is not None:
                    v = n.ast.value
                    if isinstance(v, ast.Constant) and v.value is None:
                        r.ok()
                    elif isinstance(v, ast.Call):
                        q = model.resolve(v.func, f.module, f)
                        if q in errs or builds_error_node(model, f, v) or (isinstance(v.func, ast.Attribute) and ('collect_errors' in v.func.attr)):
                            r.ok()
                        else:
                            r.fail(f.qualname, f"return {unparse(v.func)}(...)", f.loc(n.ast), "the diagnostic pass returns something that is neither None, an error node nor a sub-result")
                    else:
                        r.ok()
    return r
