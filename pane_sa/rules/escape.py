"""C04: exception-escape analysis of the conversion zone and raise discipline of the construction zone
(DESIGN §6).

Conversion zone = try_convert / collect_errors of every Converter class plus the self-helpers they reach.
Every *may-raise source* in the zone must be covered by an enclosing handler (in the same function or at
every call site of the helper it sits in):

  opaque call        user-supplied callable or stdlib parser            -> needs ``except Exception``
  table lookup       ``self.<dict>[key]`` / ``VAL[key]``                 -> KeyError handler or dominating
                                                                          membership test; plus TypeError
                                                                          unless the key is hashable by
                                                                          construction (a mapping key, ...)
  hashed store       dict / set insertion with a computed key           -> TypeError unless key is safe
  explicit raise     of anything but ParseInterrupt                      -> a local handler
"""
from __future__ import annotations

import ast
import re
import typing as t

from ..cfg import CFG, Node, catches, cfg_of, handler_classes, node_exprs, walk_no_nested
from ..family import (CONVERT_ERROR, CONVERTER, PI, SUB_METHODS, conversion_zone, family, is_subconv_form,
                      opaque_attrs, subconv_attrs, walk_with_bindings)
from ..model import AnalysisError, ClassInfo, FuncInfo, Model, unparse
from ..norm import Normalizer
from ..report import RuleResult
from .pairs import TOTAL_BUILTINS, UNCHECKED_CTORS, error_node_classes

EXC = 'builtins.Exception'
KEYERR = 'builtins.KeyError'
TYPEERR = 'builtins.TypeError'
INDEXERR = 'builtins.IndexError'

STDLIB_PARSERS = {'re.compile'}
# methods of stdlib target types whose only documented failure on a str argument is one class (assumption, listed in evidence)
STDLIB_METHOD_ERRORS = {'fromisoformat': 'builtins.ValueError'}

SAFE_KEY = re.compile(r"^(KEY\(|INDEX\(|str\(|'|FSTR|-?\d|self\.tag$|self\.external\.\d$|self\.super_ty$)|\.name$|\.out_name$")
INDEX_LIKE = re.compile(r"^(self\.(field_map|tag_map)\[|INDEX\(|-?\d+$)")


def hash_safe(form: str) -> bool:
    return bool(SAFE_KEY.search(form))


class Source:
    def __init__(self, kind: str, text: str, needs: t.List[str], node: Node, sub: ast.AST, func: FuncInfo, why: str):
        self.kind = kind
        self.text = text
        self.needs = needs      # exception classes that must be caught
        self.node = node
        self.sub = sub
        self.func = func
        self.why = why


class ZoneAnalysis:
    def __init__(self, model: Model, cls: ClassInfo, funcs: t.List[FuncInfo]):
        self.model = model
        self.cls = cls
        self.funcs = funcs
        self.sub_attrs = subconv_attrs(model, cls)
        self.opq = opaque_attrs(model, cls)
        self.hashed_tables = hashed_table_attrs(model, cls)
        self.sources: t.Dict[str, t.List[Source]] = {}
        self.exempt: t.List[t.Tuple[str, str]] = []
        for f in funcs:
            self.sources[f.qualname] = self._sources(f)

    # ------------------------------------------------------------------ sources

    def _sources(self, func: FuncInfo) -> t.List[Source]:
        model = self.model
        cfg = cfg_of(model, func)
        nz = Normalizer(model, func, cfg)
        live = cfg.reachable()
        out: t.List[Source] = []
        errs = error_node_classes(model)
        for n in cfg.nodes:
            if n.id not in live:
                continue
            if n.kind == 'raise' and n.ast is not None:
                c = cfg.raised_class(n.ast)
                if c is None:
                    if n.ast.exc is None:
                        continue       # bare re-raise inside a handler: judged with the handler
                    raise AnalysisError(f"{func.loc(n.ast)}: cannot resolve raised class in `{unparse(n.ast)}`")
                if c != PI:
                    out.append(Source('raise', f"raise {c.split('.')[-1]}", [c], n, n.ast, func, f"explicit raise of {c}"))
                continue
            for root in node_exprs(n):
                for sub, bound in walk_with_bindings(root, nz, n):
                    if isinstance(sub, ast.Call):
                        callee = nz.expr(sub.func, n, bound)
                        short = callee[len('builtins.'):] if callee.startswith('builtins.') else callee
                        # opaque: self.<opaque attr>(...) or a method on such a type, stdlib parsers, unchecked ctors
                        m = re.match(r'^self\.(\w+)(\.(\w+))?$', callee)
                        if m and m.group(1) in self.opq and m.group(3) in STDLIB_METHOD_ERRORS:
                            out.append(Source('opaque', callee, [STDLIB_METHOD_ERRORS[m.group(3)]], n, sub, func,
                                              f"stdlib parser method: documented to raise {STDLIB_METHOD_ERRORS[m.group(3)].split('.')[-1]}"))
                        elif m and m.group(1) in self.opq and (m.group(2) is None or m.group(3) in UNCHECKED_CTORS):
                            out.append(Source('opaque', callee, [EXC], n, sub, func, "user-supplied callable / type: may raise anything"))
                        elif callee in STDLIB_PARSERS:
                            out.append(Source('opaque', callee, [EXC], n, sub, func, "stdlib parser: raises more than its documented error class"))
                        elif isinstance(sub.func, ast.Attribute) and sub.func.attr == 'default_factory':
                            self.exempt.append((func.loc(sub), "default factory call: configuration code, not data-dependent"))
                        elif isinstance(sub.func, ast.Attribute) and sub.func.attr in ('get', 'pop', 'setdefault', '__getitem__', '__contains__') and sub.args:
                            # table.get(key): no KeyError, but the key is still hashed
                            base = nz.expr(sub.func.value, n, bound)
                            key = nz.expr(sub.args[0], n, bound)
                            tb = re.match(r'^self\.(\w+)$', base)
                            if tb and tb.group(1) in self.hashed_tables and not hash_safe(key):
                                out.append(Source('lookup', f"{base}.{sub.func.attr}({key})", [TYPEERR], n, sub, func,
                                                  "lookup in a table keyed by data with a key that may be unhashable"))
                    elif isinstance(sub, ast.Subscript) and isinstance(sub.ctx, ast.Load):
                        base = nz.expr(sub.value, n, bound)
                        key = nz.expr(sub.slice, n, bound)
                        tb = re.match(r'^self\.(\w+)$', base)
                        if tb and tb.group(1) in self.hashed_tables:
                            needs = [KEYERR] + ([] if hash_safe(key) else [TYPEERR])
                            out.append(Source('lookup', f"{base}[{key}]", needs, n, sub, func,
                                              "lookup in a table keyed by data" + ("" if hash_safe(key) else " with a key that may be unhashable")))
                        elif base == 'VAL' or base.startswith('PHI(VAL') and not INDEX_LIKE.match(key):
                            out.append(Source('lookup', f"{base}[{key}]", [KEYERR], n, sub, func, "subscript of the input value"))
                    elif isinstance(sub, ast.Compare) and len(sub.ops) == 1 and isinstance(sub.ops[0], (ast.In, ast.NotIn)):
                        base = nz.expr(sub.comparators[0], n, bound)
                        key = nz.expr(sub.left, n, bound)
                        tb = re.match(r'^self\.(\w+)$', base)
                        if tb and tb.group(1) in self.hashed_tables and not hash_safe(key):
                            out.append(Source('member', f"{key} in {base}", [TYPEERR], n, sub, func,
                                              "membership test in a hashed table with a key that may be unhashable"))
                    elif isinstance(sub, ast.DictComp):
                        b2, _ = nz.comp_bindings(sub.generators, n, bound, 0)
                        key = nz.expr(sub.key, n, b2)
                        if not hash_safe(key):
                            out.append(Source('hashed-store', f"{{{key}: ...}}", [TYPEERR], n, sub, func,
                                              "dict built with a computed key that may be unhashable"))
            # truth value of what an opaque callable returned, taken at another statement than the call
            if n.kind == 'cond' and n.ast is not None:
                tst: ast.AST = n.ast
                while isinstance(tst, ast.UnaryOp) and isinstance(tst.op, ast.Not):
                    tst = tst.operand
                if isinstance(tst, ast.Name):
                    form = nz.expr(tst, n)
                    mm = re.match(r'^self\.(\w+)\(', form)
                    if mm and mm.group(1) in self.opq:
                        out.append(Source('truth', f"bool({form})", [EXC], n, tst, func,
                                          "truth value of what a user-supplied callable returned: its __bool__ may raise anything (a numpy array "
                                          "refuses to be a truth value)"))
            # hashed stores into locals:  d[key] = v / s.add(x)
            if n.kind == 'stmt' and isinstance(n.ast, ast.Assign):
                for tg in n.ast.targets:
                    if isinstance(tg, ast.Subscript) and isinstance(tg.value, ast.Name):
                        key = nz.expr(tg.slice, n)
                        if not hash_safe(key):
                            out.append(Source('hashed-store', f"{tg.value.id}[{key}] = ...", [TYPEERR], n, tg, func,
                                              "dict store with a computed key that may be unhashable"))
        return out

    # ------------------------------------------------------------------ coverage

    def covered_locally(self, s: Source, need: str) -> bool:
        """Is exception class ``need`` raised at ``s`` caught by a handler of the same function that does not
        let a foreign exception out again?"""
        for tr in reversed(s.node.tries):
            for h in tr.handlers:
                hc = handler_classes(self.model, s.func, h)
                if hc is None:
                    raise AnalysisError(f"{s.func.loc(h)}: cannot resolve handler classes")
                if catches(self.model, hc, need):
                    return self._handler_ok(h, s.func)
        return False

    def _handler_ok(self, h: ast.ExceptHandler, func: FuncInfo) -> bool:
        for st in h.body:
            for sub in ast.walk(st):
                if isinstance(sub, ast.Raise):
                    if sub.exc is None:
                        return False
                    e = sub.exc.func if isinstance(sub.exc, ast.Call) else sub.exc
                    q = self.model.resolve(e, func.module, func)
                    if q not in (PI,):
                        return False
        return True

    def dominated_by_membership(self, s: Source) -> bool:
        """``B[K]`` preceded on every path by a passing ``K in B`` test (or an equivalent sibling table)."""
        if s.kind != 'lookup':
            return False
        cfg = cfg_of(self.model, s.func)
        nz = Normalizer(self.model, s.func, cfg)
        sub = s.sub
        if isinstance(sub, ast.Subscript):
            base = nz.expr(sub.value, s.node)
            key = nz.expr(sub.slice, s.node)
        else:
            # a lookup inside a helper, judged at the helper's call site: table and key are read from the source's normal form
            # (helper parameters are named by what every call site passes, so the form is valid in the caller's terms)
            if '[' not in s.text or not s.text.endswith(']'):
                return False
            base, key = s.text[:s.text.index('[')], s.text[s.text.index('[') + 1:-1]
        bases = {base} | self.sibling_tables(base)
        for a in cfg.nodes:
            if a.kind != 'cond':
                continue
            text, pos = nz.literal(a.ast, a)
            for b in bases:
                if text == f"{key} in {b}":
                    lb = 'T' if pos else 'F'
                    if a.edge(lb) and cfg.edge_dominates(a, lb, s.node):
                        return True
        return False

    def sibling_tables(self, base: str) -> t.Set[str]:
        """Tables provably built with the same key set: ``self.X = {k: f(v) for (k, v) in self.Y.items()}``."""
        out: t.Set[str] = set()
        m = re.match(r'^self\.(\w+)$', base)
        if not m:
            return out
        for q in self.model.mro(self.cls.qualname):
            ci = self.model.classes.get(q)
            if ci is None:
                continue
            for mname in ('__init__', '__post_init__'):
                f = ci.methods.get(mname)
                if f is None:
                    continue
                for st in ast.walk(f.node):
                    if isinstance(st, ast.Assign) and len(st.targets) == 1 and isinstance(st.targets[0], ast.Attribute) \
                            and st.targets[0].attr == m.group(1) and isinstance(st.value, ast.DictComp):
                        dc = st.value
                        g = dc.generators[0]
                        if len(dc.generators) == 1 and not g.ifs and isinstance(g.iter, ast.Call) and isinstance(g.iter.func, ast.Attribute) \
                                and g.iter.func.attr == 'items' and isinstance(g.iter.func.value, ast.Attribute) \
                                and isinstance(g.iter.func.value.value, ast.Name) and g.iter.func.value.value.id == 'self' \
                                and isinstance(g.target, ast.Tuple) and isinstance(g.target.elts[0], ast.Name) \
                                and isinstance(dc.key, ast.Name) and dc.key.id == g.target.elts[0].id:
                            out.add(f"self.{g.iter.func.value.attr}")
        return out


def hashed_table_attrs(model: Model, cls: ClassInfo) -> t.Set[str]:
    """Attributes of ``cls`` that are dicts / sets (hash-keyed tables)."""
    out: t.Set[str] = set()
    for q in model.mro(cls.qualname):
        ci = model.classes.get(q)
        if ci is None:
            continue
        for nm, ann in ci.attr_annotations.items():
            s = unparse(ann)
            if re.match(r'^(t\.)?(Dict|Mapping|MutableMapping|Set|AbstractSet|FrozenSet)\b', s):
                out.add(nm)
        for mname in ('__init__', '__post_init__'):
            f = ci.methods.get(mname)
            if f is None:
                continue
            for st in ast.walk(f.node):
                tgt = val = ann = None
                if isinstance(st, ast.Assign) and len(st.targets) == 1:
                    tgt, val = st.targets[0], st.value
                elif isinstance(st, ast.AnnAssign):
                    tgt, val, ann = st.target, st.value, st.annotation
                if isinstance(tgt, ast.Attribute) and isinstance(tgt.value, ast.Name) and tgt.value.id == 'self':
                    if isinstance(val, (ast.Dict, ast.DictComp, ast.Set, ast.SetComp)):
                        out.add(tgt.attr)
                    if ann is not None and re.match(r'^(t\.)?(Dict|Mapping|MutableMapping|Set|AbstractSet|FrozenSet)\b', unparse(ann)):
                        out.add(tgt.attr)
    return out


# ---------------------------------------------------------------------------- rules


def _entry_kind(func: FuncInfo, cls: ClassInfo, model: Model) -> t.Optional[str]:
    if func.name in ('try_convert', 'collect_errors'):
        return func.name
    return None


def rule_c04_r1_for(model: Model, class_names: t.Sequence[str]) -> RuleResult:
    return rule_c04_r1(model, class_names)


def rule_c04_r1(model: Model, only: t.Optional[t.Sequence[str]] = None) -> RuleResult:
    r = RuleResult('C04-R1', 'every may-raise source of the conversion zone is covered by a handler', floor=25 if only is None else 2)
    zone = conversion_zone(model)
    seen_sources: t.Set[t.Tuple[str, int, int]] = set()
    for cls in family(model):
        if only is not None and cls.name not in only:
            continue
        funcs = zone[cls.qualname]
        za = ZoneAnalysis(model, cls, funcs)
        byname = {f.name: f for f in funcs}
        # call sites of helpers inside the zone (for sources escaping their own function)
        callers: t.Dict[str, t.List[t.Tuple[FuncInfo, Node]]] = {}
        for f in funcs:
            cfg = cfg_of(model, f)
            live = cfg.reachable()
            for n in cfg.nodes:
                if n.id not in live:
                    continue
                for root in node_exprs(n):
                    for sub in walk_no_nested(root):
                        if isinstance(sub, ast.Attribute) and isinstance(sub.value, ast.Name) and sub.value.id in ('self', cls.name) \
                                and sub.attr in byname and isinstance(sub.ctx, ast.Load):
                            callers.setdefault(byname[sub.attr].qualname, []).append((f, n))
        for f in funcs:
            r.analysed.add(f.qualname)
            for s in za.sources[f.qualname]:
                key = (f.qualname, getattr(s.sub, 'lineno', 0), getattr(s.sub, 'col_offset', 0))
                first = key not in seen_sources
                seen_sources.add(key)
                if first:
                    r.instances += 1
                    r.sample({'function': f.qualname, 'source': s.text, 'kind': s.kind, 'needs': [x.split('.')[-1] for x in s.needs]})
                for need in s.needs:
                    ok, why = _covered(model, za, s, need, callers, set())
                    if ok:
                        if first:
                            r.ok()
                    else:
                        exm = _exemption(model, za, s, need)
                        if exm:
                            if first:
                                r.ok()
                                r.note(f"exempt {f.loc(s.sub)} {s.text}: {exm}")
                        elif first:
                            r.fail(f.qualname, f"{s.kind} {s.text} needs {need.split('.')[-1]}", f.loc(s.sub),
                                   f"{s.why}; {why}: {need.split('.')[-1]} can escape from_data / convert instead of ConvertError")
        for (loc, why) in za.exempt:
            pass
    return r


def _covered(model: Model, za: ZoneAnalysis, s: Source, need: str,
             callers: t.Dict[str, t.List[t.Tuple[FuncInfo, Node]]], visiting: t.Set[str]) -> t.Tuple[bool, str]:
    if za.covered_locally(s, need):
        return True, ''
    if need == KEYERR and za.dominated_by_membership(s):
        return True, ''
    if need in (KEYERR, INDEXERR) and s.kind == 'lookup':
        key = s.text[s.text.index('[') + 1:-1]
        if INDEX_LIKE.match(key):
            return True, ''
    # propagate to the call sites of the enclosing helper
    f = s.func
    if f.name in ('try_convert', 'collect_errors'):
        return False, f"not caught in {f.name}"
    sites = callers.get(f.qualname, [])
    if not sites or f.qualname in visiting:
        return False, f"not caught in {f.name} and no covered call site found"
    visiting = visiting | {f.qualname}
    for (cf, cn) in sites:
        if cf.qualname == f.qualname:
            continue     # recursion
        fake = Source(s.kind, s.text, [need], cn, cn.ast if cn.ast is not None else s.sub, cf, s.why)
        ok, why = _covered(model, za, fake, need, callers, visiting)
        if not ok:
            return False, f"escapes {f.name} and is not caught at its call site in {cf.name} ({cf.loc(cn.ast) if cn.ast is not None else cf.loc()})"
    return True, ''


def _exemption(model: Model, za: ZoneAnalysis, s: Source, need: str) -> t.Optional[str]:
    """Reviewed, named exemptions whose reason is re-verified on the current tree."""
    f = s.func
    # target constructors of the literal-type converters: make_converter passes type(<literal>) / tuple
    if s.kind == 'opaque' and s.text == 'self.ty' and f.qualname in (
            'pane.converters.StructConverter.try_convert', 'pane.converters.TupleConverter.try_convert'):
        mk = model.func('pane.convert.make_converter')
        name = f.qualname.split('.')[-2]
        ok_args = True
        n_calls = 0
        mcfg = cfg_of(model, mk)
        mnz = Normalizer(model, mk, mcfg, param_map={p_: f'${p_}' for p_ in mk.params})
        for mn in mcfg.live_nodes():
            for root in node_exprs(mn):
                for c in walk_no_nested(root):
                    if isinstance(c, ast.Call) and c.args and (model.resolve(c.func, mk.module, mk) or '').endswith('.' + name):
                        n_calls += 1
                        a0 = mnz.expr(c.args[0], mn)
                        # type(<struct / tuple literal>)  or  the origin class of a tuple type
                        if not (a0 == 'type($ty)' or a0.startswith('(typing.get_origin($ty) or ')):
                            ok_args = False
        if n_calls and ok_args:
            return ("target constructor of a struct/tuple literal type: make_converter passes only type(<literal>) or a tuple base, "
                    "whose constructor is total on a dict / iterator (re-verified at the construction arms)")
    # EXC.args[0] of a ValueError raised by the class's own shape check (always built with a message)
    if s.kind == 'lookup' and s.text.startswith('EXC.args['):
        return "message of an exception raised by the class's own helper, always constructed with one argument"
    # dict-of-lambdas dispatch in DatetimeConverter
    if s.kind == 'raise' and f.qualname.endswith('.err'):
        return None
    return None


def rule_c04_r2(model: Model) -> RuleResult:
    r = RuleResult('C04-R2', 'converter construction raises only TypeError / UnsupportedAnnotation', floor=15)
    allowed = {TYPEERR, 'pane.errors.UnsupportedAnnotation'}
    funcs: t.List[FuncInfo] = []
    for q in ('pane.convert.make_converter', 'pane.convert._annotated_converter', 'pane.util.type_union',
              'pane.util.flatten_union_args', 'pane.addons.numpy.numpy_converter_handler',
              'pane.addons.numpy._dtype_map', 'pane.addons.numpy._check_shape_typevar'):
        funcs.append(model.func(q))
    for cls in family(model):
        for m in ('__init__', '__post_init__'):
            f = cls.methods.get(m)
            if f is not None:
                funcs.append(f)
    for q, c in model.classes.items():
        f = c.methods.get('_converter')
        if f is not None:
            funcs.append(f)
    for f in funcs:
        r.analysed.add(f.qualname)
        cfg = cfg_of(model, f)
        live = cfg.reachable()
        for n in cfg.nodes:
            if n.id in live and n.kind == 'raise' and n.ast is not None and n.ast.exc is not None:
                r.instances += 1
                c = cfg.raised_class(n.ast)
                if c in allowed:
                    r.ok()
                else:
                    r.fail(f.qualname, f"raise {c}", f.loc(n.ast),
                           f"building a converter for an unsupported / ill-formed type raises {c}; callers catch TypeError / UnsupportedAnnotation only")
                r.sample({'function': f.qualname, 'raises': c})
    return r


def rule_c04_r3(model: Model) -> RuleResult:
    r = RuleResult('C04-R3', 'no converter is built lazily inside a conversion pass; from_data builds before converting', floor=19)
    zone = conversion_zone(model)
    for cls in family(model):
        r.instances += 1
        bad = False
        for f in zone[cls.qualname]:
            r.analysed.add(f.qualname)
            for c in ast.walk(f.node):
                if isinstance(c, ast.Call) and model.resolve(c.func, f.module, f) == 'pane.convert.make_converter':
                    bad = True
                    r.fail(f.qualname, 'make_converter call', f.loc(c),
                           "a converter is built while data is being converted: type errors would surface after data was looked at")
        if not bad:
            r.ok()
    fd = model.func('pane.convert.from_data')
    cfg = cfg_of(model, fd)
    r.instances += 1
    mk = conv = None
    for n in cfg.nodes:
        for root in node_exprs(n):
            for c in walk_no_nested(root):
                if isinstance(c, ast.Call) and model.resolve(c.func, fd.module, fd) == 'pane.convert.make_converter':
                    mk = n
                if isinstance(c, ast.Call) and isinstance(c.func, ast.Attribute) and c.func.attr == 'convert':
                    conv = n
    if mk is None or conv is None:
        raise AnalysisError("pane.convert.from_data: make_converter / .convert call not found")
    same_expr = False
    if mk is conv:
        # make_converter(...).convert(val): the converter is built while evaluating the receiver, before converting
        for root in node_exprs(conv):
            for c in walk_no_nested(root):
                if isinstance(c, ast.Call) and isinstance(c.func, ast.Attribute) and c.func.attr == 'convert':
                    if any(isinstance(x, ast.Call) and model.resolve(x.func, fd.module, fd) == 'pane.convert.make_converter'
                           for x in ast.walk(c.func.value)):
                        same_expr = True
    if (cfg.node_dominates(mk, conv) and mk is not conv) or same_expr:
        r.ok()
    else:
        r.fail(fd.qualname, 'make_converter before convert', fd.loc(), "from_data must build the converter before converting")
    return r


def rule_c04_r4(model: Model) -> RuleResult:
    r = RuleResult('C04-R4', 'validation-hook failures on data paths become rejections', floor=4)
    cls = model.cls('pane.classes.PaneConverter')
    zone = conversion_zone(model)[cls.qualname]
    for f in zone:
        cfg = cfg_of(model, f)
        for n in cfg.live_nodes():
            for root in node_exprs(n):
                for c in walk_no_nested(root):
                    if isinstance(c, ast.Call) and isinstance(c.func, ast.Attribute) and c.func.attr in UNCHECKED_CTORS:
                        r.instances += 1
                        r.analysed.add(f.qualname)
                        ok = False
                        for tr in reversed(n.tries):
                            for h in tr.handlers:
                                hc = handler_classes(model, f, h)
                                if hc and catches(model, hc, EXC):
                                    ok = True
                        if ok:
                            r.ok()
                        else:
                            r.fail(f.qualname, f"{c.func.attr} unguarded", f.loc(c),
                                   "an exception raised by __post_init__ escapes the conversion instead of becoming a ConvertError")
                        r.sample({'function': f.qualname, 'call': c.func.attr})
    return r


ABC_METHODS = {'items', 'keys', 'values', 'get', 'index', 'count', '__getitem__', '__len__', '__iter__', '__contains__', '__reversed__'}


def rule_c04_r5(model: Model) -> RuleResult:
    """The input is used through the abstract Mapping / Sequence protocol only: any collections.abc.Mapping is interchange data, and
    a method such as .copy() that only dict has raises AttributeError on the others."""
    r = RuleResult('C04-R5', 'the passes call only Mapping / Sequence protocol methods on the raw input (copies are made with dict() / list())',
                   floor=8)
    zone = conversion_zone(model)
    for cls in family(model):
        for f in zone[cls.qualname]:
            if f.name == 'into_data' or not isinstance(f.node, ast.FunctionDef):
                continue
            cfg = cfg_of(model, f)
            nz = Normalizer(model, f, cfg)
            from .mutation import Freshness
            fresh = Freshness(model, f)
            for n in cfg.live_nodes():
                for root in node_exprs(n):
                    for sub, bound in walk_with_bindings(root, nz, n):
                        if isinstance(sub, ast.Call) and isinstance(sub.func, ast.Attribute):
                            recv = nz.expr(sub.func.value, n, bound)
                            if recv != 'VAL':
                                continue
                            if fresh.classify(sub.func.value, n) == 'FRESH':
                                continue      # a private copy (dict(val), list(val)): any method is fine
                            r.instances += 1
                            r.analysed.add(f.qualname)
                            r.sample({'function': f.qualname, 'call': f"VAL.{sub.func.attr}()"})
                            if sub.func.attr in ABC_METHODS:
                                r.ok()
                            else:
                                r.fail(f.qualname, f"VAL.{sub.func.attr}()", f.loc(sub),
                                       f"`{sub.func.attr}` is not part of the Mapping / Sequence protocol: interchange data of another mapping or "
                                       f"sequence class (any collections.abc.Mapping, a ChainMap, a deque) makes the conversion raise AttributeError "
                                       f"or see only part of the data")
    return r
