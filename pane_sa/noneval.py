"""A small abstract interpreter over "is it None?" (used by C17-R1: an unspecified class option reaches the option record as None).

Abstract values: ``NONE``, ``SOME`` (certainly not None), ``ANY`` (unknown) and tuples of abstract values (for unpacking).  A function
body is executed path by path (an ``if`` whose test is unknown forks; loops run zero or one time); calls of module-level functions of
the package are executed the same way on the abstract arguments, every other call answers ``ANY`` (constructors of literals answer
``SOME``).  ``observe`` is asked at every statement that contains the call of interest, with the environment of the current path.
"""
from __future__ import annotations

import ast
import typing as t

from .model import FuncInfo, Model

NONE, SOME, ANY = 'NONE', 'SOME', 'ANY'
AV = t.Any


def join(a: AV, b: AV) -> AV:
    if a == b:
        return a
    if isinstance(a, tuple) and isinstance(b, tuple) and len(a) == len(b):
        return tuple(join(x, y) for x, y in zip(a, b))
    return ANY


class _Return(Exception):
    def __init__(self, value: AV):
        self.value = value


class _Abort(Exception):
    """The path ends in a raise."""


class NoneEval:
    def __init__(self, model: Model, max_paths: int = 256):
        self.model = model
        self.max_paths = max_paths
        self.paths = 0

    # ------------------------------------------------------------------ expressions

    def value(self, e: t.Optional[ast.AST], env: t.Dict[str, AV], f: FuncInfo, depth: int = 0) -> AV:
        if e is None:
            return NONE
        if isinstance(e, ast.Constant):
            return NONE if e.value is None else SOME
        if isinstance(e, ast.Name):
            return env.get(e.id, ANY)
        if isinstance(e, (ast.Tuple, ast.List)):
            if any(isinstance(x, ast.Starred) for x in e.elts):
                return SOME
            return tuple(self.value(x, env, f, depth) for x in e.elts)
        if isinstance(e, (ast.Dict, ast.Set, ast.JoinedStr, ast.ListComp, ast.SetComp, ast.DictComp, ast.GeneratorExp, ast.Lambda,
                          ast.Compare, ast.BinOp)):
            return SOME
        if isinstance(e, ast.UnaryOp):
            return SOME
        if isinstance(e, ast.NamedExpr):
            v = self.value(e.value, env, f, depth)
            if isinstance(e.target, ast.Name):
                env[e.target.id] = v
            return v
        if isinstance(e, ast.IfExp):
            tv = self.truth(e.test, env, f, depth)
            if tv is True:
                return self.value(e.body, env, f, depth)
            if tv is False:
                return self.value(e.orelse, env, f, depth)
            return join(self.value(e.body, env, f, depth), self.value(e.orelse, env, f, depth))
        if isinstance(e, ast.BoolOp):
            # `a or b`: a if truthy else b
            vals = [self.value(x, env, f, depth) for x in e.values]
            out = vals[-1]
            for v in reversed(vals[:-1]):
                if isinstance(e.op, ast.Or):
                    out = out if v == NONE else join(v, out)
                else:
                    out = NONE if v == NONE else join(v, out)
            return out
        if isinstance(e, ast.Subscript):
            base = self.value(e.value, env, f, depth)
            if isinstance(base, tuple) and isinstance(e.slice, ast.Constant) and isinstance(e.slice.value, int) \
                    and -len(base) <= e.slice.value < len(base):
                return base[e.slice.value]
            return ANY
        if isinstance(e, ast.Call):
            q = self.model.resolve(e.func, f.module, f)
            if q == 'typing.cast' and len(e.args) == 2:
                return self.value(e.args[1], env, f, depth)
            g = self.model.functions.get(q or '')
            if g is not None and isinstance(g.node, ast.FunctionDef) and depth < 4 and not any(isinstance(a, ast.Starred) for a in e.args) \
                    and all(k.arg for k in e.keywords):
                params = list(g.params)
                static = any(isinstance(d, ast.Name) and d.id in ('staticmethod',) for d in g.decorators)
                if g.cls is not None and not static:
                    params = params[1:]
                genv = self.defaults(g)
                for p_, a in zip(params, e.args):
                    genv[p_] = self.value(a, env, f, depth)
                for k in e.keywords:
                    genv[t.cast(str, k.arg)] = self.value(k.value, env, f, depth)
                return self.call(g, genv, depth + 1)
            if isinstance(e.func, ast.Name) and e.func.id in ('tuple', 'list', 'dict', 'set', 'frozenset', 'str', 'int', 'bool', 'len', 'isinstance',
                                                              'hasattr', 'sorted', 'type', 'repr'):
                return SOME
            if q and q in self.model.classes:
                return SOME
            return ANY
        return ANY

    def truth(self, test: ast.AST, env: t.Dict[str, AV], f: FuncInfo, depth: int = 0) -> t.Optional[bool]:
        if isinstance(test, ast.UnaryOp) and isinstance(test.op, ast.Not):
            v = self.truth(test.operand, env, f, depth)
            return None if v is None else not v
        if isinstance(test, ast.BoolOp):
            vs = [self.truth(x, env, f, depth) for x in test.values]
            if isinstance(test.op, ast.And):
                if any(v is False for v in vs):
                    return False
                return True if all(v is True for v in vs) else None
            if any(v is True for v in vs):
                return True
            return False if all(v is False for v in vs) else None
        if isinstance(test, ast.Compare) and len(test.ops) == 1 and isinstance(test.ops[0], (ast.Is, ast.IsNot)):
            a, b = self.value(test.left, env, f, depth), self.value(test.comparators[0], env, f, depth)
            if NONE in (a, b):
                other = b if a == NONE else a
                if other == NONE:
                    return isinstance(test.ops[0], ast.Is)
                if other == SOME or isinstance(other, tuple):
                    return isinstance(test.ops[0], ast.IsNot)
            return None
        if isinstance(test, ast.Call) and isinstance(test.func, ast.Name) and test.func.id == 'isinstance' and len(test.args) == 2:
            if self.value(test.args[0], env, f, depth) == NONE and 'None' not in ast.unparse(test.args[1]):
                return False
            return None
        if isinstance(test, ast.NamedExpr):
            v = self.value(test, env, f, depth)
            return False if v == NONE else None
        if isinstance(test, ast.Name):
            return False if env.get(test.id, ANY) == NONE else None
        if isinstance(test, ast.Constant):
            return bool(test.value)
        return None

    # ------------------------------------------------------------------ statements

    def defaults(self, g: FuncInfo) -> t.Dict[str, AV]:
        a = g.node.args
        env: t.Dict[str, AV] = {p: ANY for p in g.params}
        pos = a.posonlyargs + a.args
        for p_, d in zip(pos[len(pos) - len(a.defaults):], a.defaults):
            env[p_.arg] = NONE if isinstance(d, ast.Constant) and d.value is None else (SOME if isinstance(d, ast.Constant) else ANY)
        for p_, d in zip(a.kwonlyargs, a.kw_defaults):
            if d is not None:
                env[p_.arg] = NONE if isinstance(d, ast.Constant) and d.value is None else (SOME if isinstance(d, ast.Constant) else ANY)
        if a.vararg is not None:
            env[a.vararg.arg] = SOME
        if a.kwarg is not None:
            env[a.kwarg.arg] = SOME
        return env

    def call(self, g: FuncInfo, env: t.Dict[str, AV], depth: int) -> AV:
        results: t.List[AV] = []

        def done(_env: t.Dict[str, AV]) -> None:
            results.append(NONE)
        try:
            self._block(g.node.body, env, g, depth, None, done, results)
        except _Abort:
            pass
        if not results:
            return ANY
        out = results[0]
        for r in results[1:]:
            out = join(out, r)
        return out

    def run(self, f: FuncInfo, env: t.Dict[str, AV], observe: t.Callable[[ast.stmt, t.Dict[str, AV]], None]) -> None:
        try:
            self._block(f.node.body, env, f, 0, observe, lambda _e: None, [])
        except _Abort:
            pass

    def _assign(self, tg: ast.AST, v: AV, env: t.Dict[str, AV]) -> None:
        if isinstance(tg, ast.Name):
            env[tg.id] = v
        elif isinstance(tg, (ast.Tuple, ast.List)):
            if isinstance(v, tuple) and len(v) == len(tg.elts) and not any(isinstance(x, ast.Starred) for x in tg.elts):
                for x, xv in zip(tg.elts, v):
                    self._assign(x, xv, env)
            else:
                for x in tg.elts:
                    self._assign(x.value if isinstance(x, ast.Starred) else x, ANY, env)

    def _block(self, body: t.Sequence[ast.stmt], env: t.Dict[str, AV], f: FuncInfo, depth: int,
               observe: t.Optional[t.Callable[[ast.stmt, t.Dict[str, AV]], None]], cont: t.Callable[[t.Dict[str, AV]], None],
               results: t.List[AV]) -> None:
        """Continuation-passing execution: ``cont`` runs what follows the block for every path that falls through it."""
        if not body:
            cont(env)
            return
        st, rest = body[0], body[1:]

        def after(e2: t.Dict[str, AV]) -> None:
            self._block(rest, e2, f, depth, observe, cont, results)
        self.paths += 1
        if self.paths > self.max_paths * 64:
            raise _Abort()
        if observe is not None and not isinstance(st, (ast.If, ast.For, ast.While, ast.Try, ast.With, ast.FunctionDef, ast.ClassDef)):
            observe(st, env)
        if isinstance(st, ast.Return):
            results.append(self.value(st.value, env, f, depth))
            return
        if isinstance(st, ast.Raise):
            return
        if isinstance(st, ast.Assign):
            v = self.value(st.value, env, f, depth)
            for tg in st.targets:
                self._assign(tg, v, env)
            after(env)
            return
        if isinstance(st, ast.AnnAssign):
            if st.value is not None:
                self._assign(st.target, self.value(st.value, env, f, depth), env)
            after(env)
            return
        if isinstance(st, ast.AugAssign):
            self._assign(st.target, SOME, env)
            after(env)
            return
        if isinstance(st, ast.If):
            tv = self.truth(st.test, env, f, depth)
            if tv is not False:
                self._block(st.body, dict(env), f, depth, observe, after, results)
            if tv is not True:
                self._block(st.orelse, dict(env), f, depth, observe, after, results)
            return
        if isinstance(st, (ast.For, ast.While)):
            after(dict(env))                                             # zero iterations
            e2 = dict(env)
            if isinstance(st, ast.For):
                self._assign(st.target, ANY, e2)
            self._block(st.body, e2, f, depth, observe, after, results)  # one iteration
            return
        if isinstance(st, ast.With):
            e2 = env
            for it in st.items:
                if it.optional_vars is not None:
                    self._assign(it.optional_vars, ANY, e2)
            self._block(st.body, e2, f, depth, observe, after, results)
            return
        if isinstance(st, ast.Try):
            self._block(list(st.body) + list(st.orelse) + list(st.finalbody), dict(env), f, depth, observe, after, results)
            for h in st.handlers:
                e2 = dict(env)
                if h.name:
                    e2[h.name] = SOME
                self._block(list(h.body) + list(st.finalbody), e2, f, depth, observe, after, results)
            return
        if isinstance(st, (ast.FunctionDef, ast.AsyncFunctionDef, ast.ClassDef)):
            env[st.name] = SOME
            after(env)
            return
        if isinstance(st, ast.Expr):
            self.value(st.value, env, f, depth)     # walrus side effects
        after(env)
