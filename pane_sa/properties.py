"""Registry: property id -> rules and evidence metadata."""
from __future__ import annotations

import typing as t

from .rules import pairs, escape

COMMON_TRUST = [
    "CPython's ast parser",
    "the checker's own catalogues (sub-converter attribute roles, total builtins, mutator methods), listed in evidence",
    "stdlib exception hierarchy read from the interpreter's builtins module",
]
COMMON_ASSUME = [
    "user-supplied callables (constructors, predicates, __post_init__, default factories, custom handlers) are opaque: "
    "they may raise anything and are assumed not to mutate their arguments",
    "only source under /repo/pane is analysed; third-party libraries (typing, json, yaml, numpy) are trusted",
]

PROPERTIES: t.Dict[str, t.Dict[str, t.Any]] = {}


def _reg(pid: str, rules: t.List[t.Callable[..., t.Any]], explanation: str, assumptions: t.Sequence[str] = (),
         trusted: t.Sequence[str] = (), exhaustive: bool = False) -> None:
    PROPERTIES[pid] = {
        'rules': rules,
        'meta': {
            'explanation': explanation,
            'assumptions': list(COMMON_ASSUME) + list(assumptions),
            'trusted_base': list(COMMON_TRUST) + list(trusted),
            'exhaustive': exhaustive,
        },
    }


_reg('C03', [pairs.rule_c03_r1, pairs.rule_c03_r2, pairs.rule_c03_r3],
     "Decides the structural clause of C03: for each of the Converter classes, the verdict atoms (branch literals with "
     "polarity, sub-converter delegations, guarded calls with their handler classes) of try_convert and collect_errors, "
     "with self-helpers inlined, are equal; convert() is the only driver. This is the local obligation of a structural "
     "induction over converter trees (sub-converters are assumed to agree). It does NOT decide full logical equivalence "
     "of the two passes (atom sets and polarity are compared, not the and/or structure), nor user-written converters.")

_reg('C04', [escape.rule_c04_r1, escape.rule_c04_r2, escape.rule_c04_r3, escape.rule_c04_r4],
     "Decides the structural clause of C04 by an exception-escape analysis: every may-raise source in the conversion zone "
     "(opaque user callables and stdlib parsers, data-keyed table lookups incl. unhashable keys, hashed stores with computed keys, "
     "explicit raises) is covered by a handler that turns it into ParseInterrupt / an error node, at the source or at every call site of "
     "its helper; converter construction raises only TypeError / UnsupportedAnnotation; no converter is built lazily during a pass. "
     "Not decided: exceptions raised by == / __str__ of exotic values, RecursionError / MemoryError, errors of the JSON / YAML parsers.")

# ---------------------------------------------------------------------------- MANIFEST texts

MANIFEST_TEXT: t.Dict[str, t.Dict[str, str]] = {}
NOT_APPLICABLE: t.Dict[str, str] = {
    'C20': "Canonical spelling, injectivity, idempotence and snake-reversibility of rename styles are statements about the "
           "algebra of str.lower/upper/title/isupper/istitle and two regexes over all identifiers: facts about string values, "
           "not about the shape of the code. No sound static argument in reach bounds them; the only structural clause (every "
           "style has a joiner and one implementation is used everywhere) is decided under C15. DESIGN.md section 22.",
}


def _mt(pid: str, level: str, technique: str, design_ref: str, note: str) -> None:
    MANIFEST_TEXT[pid] = {'level': level, 'technique': technique, 'design_ref': design_ref, 'note': note}


_STD_NOTE = ("Trusted: CPython's ast parser; the checker's catalogues (attribute roles, total builtins, mutator methods, idiom tables) "
             "printed in the evidence; user-supplied callables are opaque (may raise, assumed not to mutate arguments). Only a structural "
             "necessary condition of the property is decided, not the runtime behaviour.")

_mt('C03',
    "Static sibling-agreement check: for each of the 18 Converter classes the verdict atoms (branch literals with polarity, "
    "sub-converter delegations with their necessary conditions, guarded calls with handler classes) of try_convert and collect_errors "
    "must be equal after inlining self-helpers and normalising locals; convert() must be the sole driver. This discharges, for all "
    "classes and all paths, the local obligation of a structural induction over converter trees, which no finite value sample does. "
    "Full logical equivalence of the passes is not decided.",
    "static sibling agreement over CFG control dependence (verdict-atom comparison)", "DESIGN.md section 5", _STD_NOTE)
