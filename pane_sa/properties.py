"""Registry: property id -> rules and evidence metadata."""
from __future__ import annotations

import typing as t

from .rules import pairs, escape, dispatch, gates, mutation, purity, classes_rules, extra

COMMON_TRUST = [
    "CPython's ast parser",
    "the checker's own catalogues (sub-converter attribute roles, total builtins, mutator methods), listed in evidence",
    "stdlib exception hierarchy read from the interpreter's builtins module",
]
COMMON_ASSUME = [
    "user-supplied callables (constructors, predicates, __post_init__, default factories, custom handlers) are opaque: "
    "they may raise anything and are assumed not to mutate their arguments",
    "only source under /repo/pane is analysed; third-party libraries (typing, json, yaml, numpy) are trusted",
]

PROPERTIES: t.Dict[str, t.Dict[str, t.Any]] = {}


def _reg(pid: str, rules: t.List[t.Callable[..., t.Any]], explanation: str, assumptions: t.Sequence[str] = (),
         trusted: t.Sequence[str] = (), exhaustive: bool = False) -> None:
    PROPERTIES[pid] = {
        'rules': rules,
        'meta': {
            'explanation': explanation,
            'assumptions': list(COMMON_ASSUME) + list(assumptions),
            'trusted_base': list(COMMON_TRUST) + list(trusted),
            'exhaustive': exhaustive,
        },
    }


_reg('C03', [pairs.rule_c03_r1, pairs.rule_c03_r2, pairs.rule_c03_r3, extra.rule_unchecked_dict_complete, escape.rule_c04_r1],
     "Decides the structural clause of C03: for each of the Converter classes, the verdict atoms (branch literals with "
     "polarity, sub-converter delegations, guarded calls with their handler classes) of try_convert and collect_errors, "
     "with self-helpers inlined, are equal; convert() is the only driver. This is the local obligation of a structural "
     "induction over converter trees (sub-converters are assumed to agree). It does NOT decide full logical equivalence "
     "of the two passes (atom sets and polarity are compared, not the and/or structure), nor user-written converters.")

_reg('C04', [escape.rule_c04_r1, escape.rule_c04_r2, escape.rule_c04_r3, escape.rule_c04_r4, pairs.rule_c03_r1, dispatch.rule_c01_r1, escape.rule_c04_r5],
     "Decides the structural clause of C04 by an exception-escape analysis: every may-raise source in the conversion zone "
     "(opaque user callables and stdlib parsers, data-keyed table lookups incl. unhashable keys, hashed stores with computed keys, "
     "explicit raises) is covered by a handler that turns it into ParseInterrupt / an error node, at the source or at every call site of "
     "its helper; converter construction raises only TypeError / UnsupportedAnnotation; no converter is built lazily during a pass. "
     "Not decided: exceptions raised by == / __str__ of exotic values, RecursionError / MemoryError, errors of the JSON / YAML parsers.")

_reg('C02', [gates.rule_c02_r1, gates.rule_c02_r2, gates.rule_c02_r3, gates.rule_c02_r4, dispatch.rule_c01_r1, purity.rule_c01_r2,
             classes_rules.rule_c15_r4, extra.rule_no_swallowed_rejection, extra.rule_whole_value_delegation, gates.rule_c02_r6, gates.rule_c02_r7, classes_rules.rule_c17_r8, extra.rule_substitution_early_return],
     "Decides the structural clauses of C02: (R1) the sequence / iterable kind predicates exclude str, bytes and bytearray and the "
     "mapping predicate accepts mappings only; (R2) in both passes of every Converter class each structural use of the raw input "
     "(iteration, zip, enumerate, len, indexing, .items()) is dominated in the CFG by the passing branch of such a gate, across helper "
     "calls; (R3) the scalar acceptance table has no cross-kind cell, keeps exactly the lossless widenings int->float->complex, and has "
     "a row for every interchange scalar; (R4) every delegation hands the sub-converter a projection of the input, never a pre-coerced "
     "value, so strictness is inherited by every embedding context; plus the dispatch analysis (bool / str-subclass kinds). "
     "Not decided: coercions performed inside user-supplied constructors.", exhaustive=False)

_reg('C09', [mutation.rule_c09_r1, mutation.rule_c09_r2, gates.rule_c09_r3],
     "Decides C09 for library code by a flow-sensitive freshness / alias analysis over both conversion passes, every into_data, the "
     "generated __init__, the unchecked constructors, copy/replace and the module-level entry points: no value reachable from a data "
     "parameter is the receiver of a mutating method, the target of an item / attribute store, del or augmented assignment (copies, "
     "displays and comprehensions are fresh), and a raw mapping is subscripted only after a membership test (defaultdict inserts on "
     "read). Not decided: mutation performed by user-supplied constructors, predicates and hooks (assumed pure).")

# ---------------------------------------------------------------------------- MANIFEST texts

MANIFEST_TEXT: t.Dict[str, t.Dict[str, str]] = {}
NOT_APPLICABLE: t.Dict[str, str] = {}


def _mt(pid: str, level: str, technique: str, design_ref: str, note: str) -> None:
    MANIFEST_TEXT[pid] = {'level': level, 'technique': technique, 'design_ref': design_ref, 'note': note}


_STD_NOTE = ("Trusted: CPython's ast parser; the checker's catalogues (attribute roles, total builtins, mutator methods, idiom tables) "
             "printed in the evidence; user-supplied callables are opaque (may raise, assumed not to mutate arguments). Only a structural "
             "necessary condition of the property is decided, not the runtime behaviour.")

_mt('C02',
    "Static gate-dominance and table check: kind predicates, CFG dominance of every structural use of the raw input by a text-excluding "
    "kind gate (interprocedural over self-helpers), exhaustive cell check of the scalar acceptance table, projection-only delegation, and "
    "the dispatch analysis for bool / scalar subclasses. The matrix kind(value) x kind(target) x context factors into one gate per target "
    "kind and delegation without pre-coercion, so deciding each gate and the delegation discipline once covers every cell.",
    "CFG dominance (gates), table exhaustiveness, dataflow provenance of delegation arguments", "DESIGN.md section 4", _STD_NOTE)

_mt('C04',
    "Static exception-escape (effect) analysis over the conversion zone: every may-raise source (opaque callables, stdlib parsers, "
    "data-keyed lookups incl. unhashable keys, hashed stores with computed keys, explicit raises) must be covered by a handler that turns "
    "it into a rejection, locally or at every call site of its helper; construction raises only TypeError/UnsupportedAnnotation; no lazy "
    "converter construction inside a pass; pass agreement (C03-R1) excludes the internal RuntimeError. Sound w.r.t. the stated source "
    "catalogue, for all 18 classes and all paths.",
    "interprocedural exception-escape analysis over CFG handler stacks", "DESIGN.md section 6",
    _STD_NOTE + " fromisoformat is assumed to raise only ValueError on a str argument; total builtins (len, isinstance, tuple, ...) are assumed non-raising.")

_mt('C09',
    "Static freshness/alias analysis (flow-sensitive reaching definitions): complete for library code over both passes of all 18 "
    "Converter classes, every into_data, the generated constructor and copy/replace helpers; includes the read-that-writes case "
    "(subscripting a defaultdict input). A positive fixture is re-checked on every run because the expected finding count is zero.",
    "flow-sensitive alias / freshness dataflow", "DESIGN.md section 11", _STD_NOTE)

_mt('C03',
    "Static sibling-agreement check: for each of the 18 Converter classes the verdict atoms (branch literals with polarity, "
    "sub-converter delegations with their necessary conditions, guarded calls with handler classes) of try_convert and collect_errors "
    "must be equal after inlining self-helpers and normalising locals; convert() must be the sole driver. This discharges, for all "
    "classes and all paths, the local obligation of a structural induction over converter trees, which no finite value sample does. "
    "Full logical equivalence of the passes is not decided.",
    "static sibling agreement over CFG control dependence (verdict-atom comparison)", "DESIGN.md section 5", _STD_NOTE)


from . import properties_more as _more  # noqa: E402

_more.register(_reg, _mt, _STD_NOTE)
