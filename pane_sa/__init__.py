"""pane_sa: repository-specific static analysis of hexane360/pane (stdlib ``ast`` only).

Nothing in this package imports or executes code from the analysed repository.
"""
