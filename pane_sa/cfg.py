"""Statement-level control-flow graph with exceptional edges (DESIGN §1.2).

One graph per function.  ``if`` / ``while`` tests are split on ``and`` / ``or`` / ``not`` /
chained comparisons so that ``if a or b: X`` and ``if a: X`` + ``if b: X`` give the same branch
structure.  Statements inside a ``try`` body that may raise get an ``exc`` edge to the handler
chain; an explicit ``raise K`` with a resolvable class is routed to the first handler that can
catch ``K``.

On top of the graph: dominators, post-dominators, control dependence and reaching definitions.
"""
from __future__ import annotations

import ast
import builtins
import typing as t

from .model import AnalysisError, FuncInfo, Model, unparse


class Node:
    __slots__ = ('id', 'kind', 'ast', 'succ', 'pred', 'tries', 'lineno', 'handler_of', 'loop_of', 'extra')

    def __init__(self, nid: int, kind: str, node: t.Optional[ast.AST], lineno: int):
        self.id = nid
        self.kind = kind          # entry exit stmt cond iter with handler return raise raise_exit
        self.ast = node
        self.succ: t.List[t.Tuple[str, 'Node']] = []
        self.pred: t.List[t.Tuple[str, 'Node']] = []
        self.tries: t.Tuple[ast.Try, ...] = ()     # enclosing try statements whose *body* contains this node (outer..inner)
        self.handler_of: t.Tuple[ast.ExceptHandler, ...] = ()  # enclosing except-handler bodies (outer..inner)
        self.loop_of: t.Tuple[ast.AST, ...] = ()    # enclosing loops (outer..inner)
        self.lineno = lineno
        self.extra: t.Dict[str, t.Any] = {}

    def __repr__(self) -> str:
        return f"<N{self.id} {self.kind} L{self.lineno} {unparse(self.ast)[:50] if self.ast is not None else ''}>"

    def edge(self, label: str) -> t.List['Node']:
        return [n for (lb, n) in self.succ if lb == label]


Dangling = t.List[t.Tuple[Node, str]]


class _TryCtx:
    def __init__(self, st: ast.Try):
        self.st = st
        self.exc: Dangling = []                      # generic may-raise edges -> first handler
        self.raises: t.List[t.Tuple[Node, t.Optional[str]]] = []  # explicit raises with resolved class


_KNOWN_EXC_BASES = {
    're.error': 'builtins.Exception',
    're.PatternError': 'builtins.Exception',
    'dataclasses.FrozenInstanceError': 'builtins.AttributeError',
    'json.JSONDecodeError': 'builtins.ValueError',
}


def exception_mro(model: Model, qual: str) -> t.List[str]:
    """Linearised superclasses of an exception class named by its qualified name."""
    if qual.startswith('builtins.'):
        obj = getattr(builtins, qual.split('.', 1)[1], None)
        if isinstance(obj, type) and issubclass(obj, BaseException):
            return ['builtins.' + c.__name__ for c in obj.__mro__ if c is not object]
        return [qual]
    if qual in model.classes:
        out: t.List[str] = []
        for c in model.mro(qual):
            if c.startswith('builtins.'):
                for x in exception_mro(model, c):
                    if x not in out:
                        out.append(x)
            elif c not in out:
                out.append(c)
        return out
    if qual in _KNOWN_EXC_BASES:
        return [qual] + exception_mro(model, _KNOWN_EXC_BASES[qual])
    return [qual]


def handler_classes(model: Model, func: FuncInfo, h: ast.ExceptHandler) -> t.Optional[t.List[str]]:
    """Qualified class names an ``except`` clause catches; ``['builtins.BaseException']`` for a bare except;
    None if the expression cannot be resolved."""
    if h.type is None:
        return ['builtins.BaseException']
    elts = h.type.elts if isinstance(h.type, ast.Tuple) else [h.type]
    out = []
    for e in elts:
        q = model.resolve(e, func.module, func)
        if q is None:
            return None
        out.append(q)
    return out


def catches(model: Model, handler_cls: t.Sequence[str], raised: str) -> bool:
    mro = exception_mro(model, raised)
    return any(h in mro for h in handler_cls)


def may_raise(node: ast.AST) -> bool:
    """Whether evaluating ``node`` (not descending into nested function bodies) contains an operation
    the analysis treats as possibly raising: a call, a subscript load, ``raise`` or ``assert``."""
    for sub in walk_no_nested(node):
        if isinstance(sub, (ast.Call, ast.Raise, ast.Assert, ast.Import, ast.ImportFrom)):
            return True
        if isinstance(sub, ast.Subscript) and isinstance(sub.ctx, ast.Load):
            return True
        if isinstance(sub, ast.Subscript) and isinstance(sub.ctx, ast.Del):
            return True
    return False


def walk_no_nested(node: ast.AST) -> t.Iterator[ast.AST]:
    """ast.walk that does not descend into nested function / lambda / class bodies
    (comprehensions are descended into: they run inline)."""
    stack = [node]
    first = True
    while stack:
        n = stack.pop()
        if not first and isinstance(n, (ast.FunctionDef, ast.AsyncFunctionDef, ast.Lambda, ast.ClassDef)):
            if isinstance(n, (ast.FunctionDef, ast.AsyncFunctionDef, ast.ClassDef)):
                # decorators and defaults are evaluated inline
                for d in n.decorator_list:
                    stack.append(d)
            continue
        first = False
        yield n
        stack.extend(ast.iter_child_nodes(n))


class CFG:
    def __init__(self, model: Model, func: FuncInfo):
        self.model = model
        self.func = func
        self.nodes: t.List[Node] = []
        self._tries: t.List[_TryCtx] = []
        self._handlers: t.List[ast.ExceptHandler] = []
        self._loops: t.List[t.Tuple[ast.AST, Dangling, Dangling]] = []   # (loop stmt, break edges, continue edges)
        fn = func.node
        self.entry = self._new('entry', fn, fn.lineno)
        self.exit = Node(-1, 'exit', None, getattr(fn, 'end_lineno', fn.lineno) or fn.lineno)
        self.raise_exit = Node(-2, 'raise_exit', None, self.exit.lineno)
        if isinstance(fn, ast.Lambda):
            rn = self._new('return', ast.Return(value=fn.body, lineno=fn.lineno, col_offset=0), fn.lineno)
            self._connect([(self.entry, 'next')], rn)
            frontier: Dangling = []
            self._link(rn, 'next', self.exit_placeholder())
        else:
            frontier = self._block(fn.body, [(self.entry, 'next')])
            if frontier:
                end = getattr(fn, 'end_lineno', fn.lineno) or fn.lineno
                rn = self._new('return', None, end)
                self._connect(frontier, rn)
                self._link(rn, 'next', self.exit_placeholder())
        # materialise exits
        self.exit.id = len(self.nodes)
        self.nodes.append(self.exit)
        self.raise_exit.id = len(self.nodes)
        self.nodes.append(self.raise_exit)
        self._link(self.raise_exit, 'next', self.exit)
        self._dom: t.Optional[t.Dict[int, t.Set[int]]] = None
        self._pdom: t.Optional[t.Dict[int, t.Set[int]]] = None
        self._cd: t.Optional[t.Dict[int, t.Set[t.Tuple[int, str]]]] = None
        self._rd: t.Optional[t.Dict[int, t.Dict[str, t.Set[int]]]] = None
        self.defs: t.List['Def'] = []
        self._reach = None

    def exit_placeholder(self) -> Node:
        return self.exit

    # ------------------------------------------------------------------ construction helpers

    def _new(self, kind: str, node: t.Optional[ast.AST], lineno: int) -> Node:
        n = Node(len(self.nodes), kind, node, lineno)
        n.tries = tuple(tc.st for tc in self._tries)
        n.handler_of = tuple(self._handlers)
        n.loop_of = tuple(lp[0] for lp in self._loops)
        self.nodes.append(n)
        return n

    @staticmethod
    def _link(a: Node, label: str, b: Node) -> None:
        if (label, b) not in a.succ:
            a.succ.append((label, b))
            b.pred.append((label, a))

    def _connect(self, frontier: Dangling, target: Node) -> None:
        for (n, lb) in frontier:
            self._link(n, lb, target)

    def _register_exc(self, n: Node) -> None:
        if self._tries:
            self._tries[-1].exc.append((n, 'exc'))
        # outside any try the implicit exception exit is not drawn (see DESIGN §1.2)

    # ------------------------------------------------------------------ statements

    def _block(self, body: t.Sequence[ast.stmt], frontier: Dangling) -> Dangling:
        for st in body:
            if not frontier:
                # unreachable code after return/raise/continue/break: still build it (disconnected)
                pass
            frontier = self._stmt(st, frontier)
        return frontier

    def _stmt(self, st: ast.stmt, frontier: Dangling) -> Dangling:
        if isinstance(st, ast.If):
            t_edges, f_edges = self._cond(st.test, frontier)
            out = self._block(st.body, t_edges)
            out2 = self._block(st.orelse, f_edges) if st.orelse else f_edges
            return out + out2
        if isinstance(st, (ast.For, ast.AsyncFor)):
            it = self._new('iter', st, st.lineno)
            self._connect(frontier, it)
            if may_raise(st.iter):
                self._register_exc(it)
            brk: Dangling = []
            cont: Dangling = []
            self._loops.append((st, brk, cont))
            body_out = self._block(st.body, [(it, 'T')])
            self._loops.pop()
            self._connect(body_out + cont, it)
            after: Dangling = [(it, 'F')]
            if st.orelse:
                after = self._block(st.orelse, after)
            return after + brk
        if isinstance(st, ast.While):
            brk = []
            cont = []
            head = self._new('stmt', ast.Pass(lineno=st.lineno, col_offset=st.col_offset), st.lineno)
            head.extra['loop_head'] = st
            self._connect(frontier, head)
            t_edges, f_edges = self._cond(st.test, [(head, 'next')])
            self._loops.append((st, brk, cont))
            body_out = self._block(st.body, t_edges)
            self._loops.pop()
            self._connect(body_out + cont, head)
            after = f_edges
            if st.orelse:
                after = self._block(st.orelse, after)
            return after + brk
        if isinstance(st, ast.Try) and st.finalbody:
            # try/finally: the protected part is built as an inner try (without the finally clause); the finally body
            # runs after it on the normal path, and a second copy runs on the exceptional path before propagating
            inner = ast.Try(body=st.body, handlers=st.handlers, orelse=st.orelse, finalbody=[])
            ast.copy_location(inner, st)
            outer_ctx = _TryCtx(st)
            self._tries.append(outer_ctx)
            if st.handlers:
                normal = self._stmt(inner, frontier)
            else:
                normal = self._block(st.body, frontier)
            self._tries.pop()
            out = self._block(st.finalbody, normal)
            pending_exc: Dangling = list(outer_ctx.exc) + [(rn, 'exc') for (rn, _c) in outer_ctx.raises]
            if pending_exc:
                fin_out = self._block(st.finalbody, pending_exc)
                # after the cleanup the exception continues outward
                if self._tries:
                    self._tries[-1].exc.extend(fin_out)
                else:
                    self._connect(fin_out, self.raise_exit)
            return out
        if isinstance(st, ast.Try):
            tc = _TryCtx(st)
            self._tries.append(tc)
            body_out = self._block(st.body, frontier)
            self._tries.pop()
            else_out = self._block(st.orelse, body_out) if st.orelse else body_out
            out: Dangling = list(else_out)
            hnodes: t.List[t.Tuple[Node, t.Optional[t.List[str]]]] = []
            pending: Dangling = list(tc.exc)
            for h in st.handlers:
                hn = self._new('handler', h, h.lineno)
                hn.extra['try'] = st
                self._connect(pending, hn)
                pending = [(hn, 'F')]
                hnodes.append((hn, handler_classes(self.model, self.func, h)))
                self._handlers.append(h)
                out += self._block(h.body, [(hn, 'T')])
                self._handlers.pop()
            # explicit raises: route to the first handler able to catch the class
            for (rn, cls) in tc.raises:
                routed = False
                if cls is not None:
                    for (hn, hc) in hnodes:
                        if hc is None or catches(self.model, hc, cls):
                            self._link(rn, 'exc', hn)
                            routed = True
                            break
                        # a handler for a subclass of the raised class might match dynamically; the raise
                        # statements in the repository construct the class they name, so no such edge
                    if not routed:
                        self._propagate_raise(rn, cls)
                else:
                    if hnodes:
                        self._link(rn, 'exc', hnodes[0][0])
                    else:
                        self._propagate_raise(rn, None)
            # unmatched exceptions propagate outward
            if self._tries:
                self._tries[-1].exc.extend(pending)
            else:
                self._connect(pending, self.raise_exit)
            return out
        if isinstance(st, (ast.With, ast.AsyncWith)):
            wn = self._new('with', st, st.lineno)
            self._connect(frontier, wn)
            if any(may_raise(i.context_expr) for i in st.items):
                self._register_exc(wn)
            return self._block(st.body, [(wn, 'next')])
        if isinstance(st, ast.Return):
            rn = self._new('return', st, st.lineno)
            self._connect(frontier, rn)
            if st.value is not None and may_raise(st.value):
                self._register_exc(rn)
            self._link(rn, 'next', self.exit)
            return []
        if isinstance(st, ast.Raise):
            rn = self._new('raise', st, st.lineno)
            self._connect(frontier, rn)
            cls = self.raised_class(st)
            if self._tries:
                self._tries[-1].raises.append((rn, cls))
            else:
                self._link(rn, 'exc', self.raise_exit)
            return []
        if isinstance(st, ast.Break):
            if not self._loops:
                raise AnalysisError(f"{self.func.loc(st)}: break outside loop")
            bn = self._new('stmt', st, st.lineno)
            self._connect(frontier, bn)
            self._loops[-1][1].append((bn, 'next'))
            return []
        if isinstance(st, ast.Continue):
            if not self._loops:
                raise AnalysisError(f"{self.func.loc(st)}: continue outside loop")
            cn = self._new('stmt', st, st.lineno)
            self._connect(frontier, cn)
            self._loops[-1][2].append((cn, 'next'))
            return []
        if isinstance(st, ast.Match):
            raise AnalysisError(f"{self.func.loc(st)}: match statements are not modelled")
        # simple statements (incl. nested def / class, assert, del, import, global ...)
        sn = self._new('stmt', st, st.lineno)
        self._connect(frontier, sn)
        if may_raise(st):
            self._register_exc(sn)
        return [(sn, 'next')]

    def _propagate_raise(self, rn: Node, cls: t.Optional[str]) -> None:
        """An explicit raise not caught at the innermost level: hand it to the next enclosing try."""
        # self._tries currently holds the *outer* tries (the inner one was popped)
        if self._tries:
            self._tries[-1].raises.append((rn, cls))
        else:
            self._link(rn, 'exc', self.raise_exit)

    def raised_class(self, st: ast.Raise) -> t.Optional[str]:
        if st.exc is None:
            return None
        e = st.exc
        if isinstance(e, ast.Call):
            e = e.func
        return self.model.resolve(e, self.func.module, self.func)

    # ------------------------------------------------------------------ conditions

    def _cond(self, test: ast.expr, frontier: Dangling) -> t.Tuple[Dangling, Dangling]:
        """Build branch nodes for ``test``; returns (true-edges, false-edges)."""
        if isinstance(test, ast.BoolOp):
            if isinstance(test.op, ast.And):
                f_all: Dangling = []
                cur = frontier
                for v in test.values:
                    t_e, f_e = self._cond(v, cur)
                    f_all += f_e
                    cur = t_e
                return cur, f_all
            else:
                t_all: Dangling = []
                cur = frontier
                for v in test.values:
                    t_e, f_e = self._cond(v, cur)
                    t_all += t_e
                    cur = f_e
                return t_all, cur
        if isinstance(test, ast.UnaryOp) and isinstance(test.op, ast.Not):
            t_e, f_e = self._cond(test.operand, frontier)
            return f_e, t_e
        if isinstance(test, ast.Compare) and len(test.ops) > 1:
            parts = []
            left = test.left
            for op, right in zip(test.ops, test.comparators):
                c = ast.Compare(left=left, ops=[op], comparators=[right])
                ast.copy_location(c, test)
                parts.append(c)
                left = right
            b = ast.BoolOp(op=ast.And(), values=parts)
            ast.copy_location(b, test)
            return self._cond(b, frontier)
        if isinstance(test, ast.Constant) and isinstance(test.value, bool):
            return (frontier, []) if test.value else ([], frontier)
        cn = self._new('cond', test, getattr(test, 'lineno', 0))
        self._connect(frontier, cn)
        if may_raise(test):
            self._register_exc(cn)
        return [(cn, 'T')], [(cn, 'F')]

    # ------------------------------------------------------------------ graph algorithms

    def reachable(self, start: t.Optional[Node] = None, skip_edge: t.Optional[t.Tuple[int, str]] = None,
                  skip_node: t.Optional[int] = None) -> t.Set[int]:
        start = start or self.entry
        seen = {start.id}
        stack = [start]
        while stack:
            n = stack.pop()
            for (lb, m) in n.succ:
                if skip_edge is not None and (n.id, lb) == skip_edge:
                    continue
                if skip_node is not None and m.id == skip_node:
                    continue
                if m.id not in seen:
                    seen.add(m.id)
                    stack.append(m)
        return seen

    def live_nodes(self) -> t.List[Node]:
        r = self.reachable()
        return [n for n in self.nodes if n.id in r]

    def dominators(self) -> t.Dict[int, t.Set[int]]:
        if self._dom is None:
            self._dom = _dominators(self.nodes, self.entry, forward=True, live=self.reachable())
        return self._dom

    def postdominators(self) -> t.Dict[int, t.Set[int]]:
        if self._pdom is None:
            live = self.reachable()
            # nodes that cannot reach exit (none in practice) are given themselves only
            self._pdom = _dominators(self.nodes, self.exit, forward=False, live=live)
        return self._pdom

    def edge_dominates(self, cond: Node, label: str, target: Node) -> bool:
        """Every path from entry to ``target`` uses edge (cond, label)."""
        if target.id not in self.reachable():
            return False
        return target.id not in self.reachable(skip_edge=(cond.id, label))

    def node_dominates(self, a: Node, b: Node) -> bool:
        return a.id in self.dominators().get(b.id, set())

    def control_deps(self) -> t.Dict[int, t.Set[t.Tuple[int, str]]]:
        """node id -> set of (branch node id, label) it is directly control dependent on."""
        if self._cd is not None:
            return self._cd
        pdom = self.postdominators()
        live = self.reachable()
        cd: t.Dict[int, t.Set[t.Tuple[int, str]]] = {n.id: set() for n in self.nodes}
        for a in self.nodes:
            if a.id not in live or len(a.succ) < 2:
                continue
            for (lb, b) in a.succ:
                # nodes post-dominating b (incl. b) but not strictly post-dominating a
                for x in pdom.get(b.id, {b.id}):
                    if x == a.id or x not in (pdom.get(a.id, set()) - {a.id}):
                        if x != a.id or True:
                            if x not in (pdom.get(a.id, set()) - {a.id}):
                                cd[x].add((a.id, lb))
        self._cd = cd
        return cd

    def controlling(self, n: Node, transitive: bool = True) -> t.Set[t.Tuple[int, str]]:
        """(branch node id, label) pairs controlling ``n`` (transitively by default)."""
        cd = self.control_deps()
        out: t.Set[t.Tuple[int, str]] = set()
        work = [n.id]
        seen = {n.id}
        while work:
            x = work.pop()
            for (a, lb) in cd.get(x, ()):
                if (a, lb) not in out:
                    out.add((a, lb))
                    if transitive and a not in seen:
                        seen.add(a)
                        work.append(a)
        return out

    def conditions_of(self, n: Node) -> t.Set[t.Tuple[int, str]]:
        """Branch edges relevant to reaching ``n``: its direct control dependences plus every branch edge
        that dominates it (a necessary condition).  Unlike the transitive closure of control dependence this
        does not pick up 'survivor' conditions of or-chains and of earlier loop iterations."""
        cache = getattr(self, '_cond_cache', None)
        if cache is None:
            cache = self._cond_cache = {}
        if n.id in cache:
            return cache[n.id]
        out: t.Set[t.Tuple[int, str]] = set(self.control_deps().get(n.id, ()))
        live = self.reachable()
        if n.id in live:
            for a in self.nodes:
                if a.id not in live or len(a.succ) < 2 or a.kind not in ('cond', 'iter', 'handler'):
                    continue
                for lb in {lb for (lb, _) in a.succ}:
                    if lb == 'exc':
                        continue
                    if (a.id, lb) not in out and self.edge_dominates(a, lb, n):
                        out.add((a.id, lb))
        cache[n.id] = out
        return out

    # ------------------------------------------------------------------ reaching definitions

    def reaching(self) -> 'Reaching':
        if self._reach is None:
            self._reach = Reaching(self)
        return self._reach

    def node_of(self, sub: ast.AST) -> t.Optional[Node]:
        """The CFG node whose payload contains the AST node ``sub``."""
        target = sub
        idx = getattr(self, '_ast_index', None)
        if idx is None:
            idx = {}
            for n in self.nodes:
                for root in node_exprs(n):
                    for s in walk_no_nested(root):
                        idx.setdefault(id(s), n)
            self._ast_index = idx
        return idx.get(id(target))


def _dominators(nodes: t.Sequence[Node], root: Node, forward: bool, live: t.Set[int]) -> t.Dict[int, t.Set[int]]:
    ids = [n.id for n in nodes if n.id in live]
    allset = set(ids)
    dom: t.Dict[int, t.Set[int]] = {i: set(allset) for i in ids}
    dom[root.id] = {root.id}
    byid = {n.id: n for n in nodes}
    changed = True
    while changed:
        changed = False
        for i in ids:
            if i == root.id:
                continue
            n = byid[i]
            preds = [m.id for (_, m) in (n.pred if forward else n.succ) if m.id in live]
            if preds:
                new = set(allset)
                for p in preds:
                    new &= dom[p]
            else:
                new = set()
            new = new | {i}
            if new != dom[i]:
                dom[i] = new
                changed = True
    return dom


def node_exprs(n: Node) -> t.List[ast.AST]:
    """The AST fragments evaluated at a CFG node."""
    a = n.ast
    if a is None:
        return []
    if n.kind == 'cond':
        return [a]
    if n.kind == 'iter':
        return [a.iter, a.target]  # type: ignore[attr-defined]
    if n.kind == 'with':
        out: t.List[ast.AST] = []
        for it in a.items:  # type: ignore[attr-defined]
            out.append(it.context_expr)
            if it.optional_vars is not None:
                out.append(it.optional_vars)
        return out
    if n.kind == 'handler':
        return [a.type] if a.type is not None else []  # type: ignore[attr-defined]
    if n.kind == 'entry':
        return []
    if n.kind in ('return', 'raise', 'stmt'):
        if isinstance(a, (ast.FunctionDef, ast.ClassDef)):
            return list(a.decorator_list)
        return [a]
    return []


class Def:
    __slots__ = ('id', 'node', 'name', 'kind', 'value', 'path', 'stmt')

    def __init__(self, did: int, node: Node, name: str, kind: str, value: t.Optional[ast.AST],
                 path: t.Tuple[int, ...] = (), stmt: t.Optional[ast.AST] = None):
        self.id = did
        self.node = node
        self.name = name
        self.kind = kind      # param assign aug for with handler def import walrus del
        self.value = value    # RHS expression (assign/walrus/aug), iterable (for), context expr (with)
        self.path = path      # position inside a destructuring target
        self.stmt = stmt

    def __repr__(self) -> str:
        return f"<Def {self.name}@N{self.node.id} {self.kind}>"


def target_names(tgt: ast.AST, path: t.Tuple[int, ...] = ()) -> t.Iterator[t.Tuple[str, t.Tuple[int, ...]]]:
    if isinstance(tgt, ast.Name):
        yield tgt.id, path
    elif isinstance(tgt, (ast.Tuple, ast.List)):
        for i, e in enumerate(tgt.elts):
            yield from target_names(e, path + (i,))
    elif isinstance(tgt, ast.Starred):
        yield from target_names(tgt.value, path + (-1,))


class Reaching:
    """Classic reaching definitions over the CFG (names only)."""

    def __init__(self, cfg: CFG):
        self.cfg = cfg
        self.defs: t.List[Def] = []
        self.gen: t.Dict[int, t.List[Def]] = {n.id: [] for n in cfg.nodes}
        fn = cfg.func.node
        for p in cfg.func.params:
            self._add(cfg.entry, p, 'param', None)
        for n in cfg.nodes:
            self._collect(n)
        names = {d.name for d in self.defs}
        self.by_name: t.Dict[str, t.List[Def]] = {nm: [d for d in self.defs if d.name == nm] for nm in names}
        live = cfg.reachable()
        IN: t.Dict[int, t.Set[int]] = {n.id: set() for n in cfg.nodes}
        OUT: t.Dict[int, t.Set[int]] = {n.id: set() for n in cfg.nodes}
        changed = True
        order = [n for n in cfg.nodes if n.id in live]
        while changed:
            changed = False
            for n in order:
                new_in: t.Set[int] = set()
                for (lb, p) in n.pred:
                    # an exceptional edge leaves *before* the statement's assignment completes
                    new_in |= IN[p.id] if lb == 'exc' and p.kind != 'raise' else OUT[p.id]
                gen = self.gen[n.id]
                killed = {d.name for d in gen}
                new_out = {d for d in new_in if self.defs[d].name not in killed} | {d.id for d in gen}
                if new_in != IN[n.id] or new_out != OUT[n.id]:
                    IN[n.id] = new_in
                    OUT[n.id] = new_out
                    changed = True
        self.IN = IN
        self.OUT = OUT

    def _add(self, n: Node, name: str, kind: str, value: t.Optional[ast.AST], path: t.Tuple[int, ...] = (),
             stmt: t.Optional[ast.AST] = None) -> None:
        d = Def(len(self.defs), n, name, kind, value, path, stmt)
        self.defs.append(d)
        self.gen[n.id].append(d)

    def _collect(self, n: Node) -> None:
        a = n.ast
        if a is None or n.kind == 'entry':
            return
        if n.kind == 'stmt':
            if isinstance(a, ast.Assign):
                for tg in a.targets:
                    for nm, path in target_names(tg):
                        self._add(n, nm, 'assign', a.value, path, a)
            elif isinstance(a, ast.AnnAssign):
                if a.value is not None and isinstance(a.target, ast.Name):
                    self._add(n, a.target.id, 'assign', a.value, (), a)
            elif isinstance(a, ast.AugAssign):
                if isinstance(a.target, ast.Name):
                    self._add(n, a.target.id, 'aug', a.value, (), a)
            elif isinstance(a, (ast.FunctionDef, ast.ClassDef)):
                self._add(n, a.name, 'def', a, (), a)
            elif isinstance(a, (ast.Import, ast.ImportFrom)):
                for al in a.names:
                    self._add(n, (al.asname or al.name).split('.')[0], 'import', a, (), a)
            elif isinstance(a, ast.Delete):
                for tg in a.targets:
                    if isinstance(tg, ast.Name):
                        self._add(n, tg.id, 'del', None, (), a)
        elif n.kind == 'iter':
            for nm, path in target_names(a.target):  # type: ignore[attr-defined]
                self._add(n, nm, 'for', a.iter, path, a)  # type: ignore[attr-defined]
        elif n.kind == 'with':
            for it in a.items:  # type: ignore[attr-defined]
                if it.optional_vars is not None:
                    for nm, path in target_names(it.optional_vars):
                        self._add(n, nm, 'with', it.context_expr, path, a)
        elif n.kind == 'handler':
            if a.name:  # type: ignore[attr-defined]
                self._add(n, a.name, 'handler', a.type, (), a)  # type: ignore[attr-defined]
        # walrus targets anywhere in the node's expressions
        for root in node_exprs(n):
            for sub in walk_no_nested(root):
                if isinstance(sub, ast.NamedExpr) and isinstance(sub.target, ast.Name):
                    self._add(n, sub.target.id, 'walrus', sub.value, (), sub)

    def at(self, n: Node, name: str, after: bool = False) -> t.List[Def]:
        """Definitions of ``name`` reaching the entry (or exit, with ``after``) of node ``n``."""
        s = self.OUT[n.id] if after else self.IN[n.id]
        return [self.defs[d] for d in sorted(s) if self.defs[d].name == name]

    def is_local(self, name: str) -> bool:
        return name in self.by_name


_cfg_cache: t.Dict[t.Tuple[int, str], CFG] = {}


def cfg_of(model: Model, func: FuncInfo) -> CFG:
    key = (id(model), func.qualname + '@' + str(id(func.node)))
    c = _cfg_cache.get(key)
    if c is None:
        c = CFG(model, func)
        _cfg_cache[key] = c
    return c



def returned_values(cfg: CFG) -> t.List[t.Tuple[ast.AST, Node]]:
    """(expression, node it is evaluated at) of everything the function may return: the value of each ``return``, and - when that is
    a local assigned in several arms (``data = ...`` / ``data = ...`` / ``return data``) - each of the assigned expressions at its own
    assignment, followed transitively."""
    rd = cfg.reaching()
    out: t.List[t.Tuple[ast.AST, Node]] = []

    def follow(e: ast.AST, n: Node, depth: int) -> None:
        if isinstance(e, ast.Name) and rd.is_local(e.id) and depth < 4:
            defs = rd.at(n, e.id)
            if len(defs) > 1 and all(d.kind in ('assign', 'walrus') and d.value is not None and not d.path for d in defs):
                for d in defs:
                    follow(d.value, d.node, depth + 1)
                return
        out.append((e, n))
    for n in cfg.live_nodes():
        if n.kind == 'return' and n.ast is not None and n.ast.value is not None:
            follow(n.ast.value, n, 0)
    return out
