"""Program model of the analysed repository (DESIGN §1.1).

Parses every module below ``<repo>/pane`` with ``ast`` and offers
 * import / alias resolution (``t.Sequence`` -> ``typing.Sequence``,
   ``make_converter`` -> ``pane.convert.make_converter``),
 * a class table with resolved bases and a linearised MRO,
 * a function table that includes methods, nested closures and lambdas,
 * module level constant tables as AST.

Nothing is imported or executed from the repository.
"""
from __future__ import annotations

import ast
import builtins
import hashlib
import os
import typing as t


class AnalysisError(Exception):
    """An anchor vanished or a construct is in a shape no rule recognises.

    Mapped to exit code 2 (``ANALYSIS-ERROR``): never a violation, never a pass.
    """


BUILTIN_NAMES = set(dir(builtins))

PKG = 'pane'


def _expand_literal_dictcomps(tree: ast.Module) -> None:
    """A module-level table written as a comprehension over small literal domains

        TABLE = {(a, b): f(a, b) for a in (False, True) for b in (False, True)}

    is unrolled into the dictionary display it denotes (keys and values with the loop variables replaced by the constants), so that
    the rules which read tables (which cell holds what) see the same thing whether the table is spelled out or generated."""
    import itertools

    class Sub(ast.NodeTransformer):
        def __init__(self, env: t.Dict[str, ast.Constant]):
            self.env = env

        def visit_Name(self, node: ast.Name) -> t.Any:
            if isinstance(node.ctx, ast.Load) and node.id in self.env:
                return ast.copy_location(ast.Constant(value=self.env[node.id].value), node)
            return node
    for st in tree.body:
        val = st.value if isinstance(st, (ast.Assign, ast.AnnAssign)) else None
        if not isinstance(val, ast.DictComp):
            continue
        doms: t.List[t.Tuple[str, t.List[ast.Constant]]] = []
        ok = True
        for g in val.generators:
            if g.ifs or g.is_async or not isinstance(g.target, ast.Name) or not isinstance(g.iter, (ast.Tuple, ast.List)) \
                    or not g.iter.elts or not all(isinstance(e, ast.Constant) for e in g.iter.elts):
                ok = False
                break
            doms.append((g.target.id, t.cast(t.List[ast.Constant], list(g.iter.elts))))
        size = 1
        for _nm, d in doms:
            size *= len(d)
        if not ok or not doms or size > 256:
            continue
        keys: t.List[t.Optional[ast.expr]] = []
        values: t.List[ast.expr] = []
        for combo in itertools.product(*[d for _nm, d in doms]):
            env = {nm: c for (nm, _d), c in zip(doms, combo)}
            keys.append(Sub(env).visit(ast.parse(ast.unparse(val.key), mode='eval').body))
            values.append(Sub(env).visit(ast.parse(ast.unparse(val.value), mode='eval').body))
        new = ast.Dict(keys=keys, values=values)
        for y in ast.walk(new):
            ast.copy_location(y, val)
        st.value = new      # type: ignore[union-attr]


class Module:
    def __init__(self, name: str, relpath: str, src: str):
        self.name = name
        self.relpath = relpath
        self.src = src
        self.tree = ast.parse(src, filename=relpath)
        _expand_literal_dictcomps(self.tree)
        self.lines = src.splitlines()
        self.imports: t.Dict[str, str] = {}
        self.toplevel: t.Dict[str, ast.AST] = {}        # name -> defining node (FunctionDef/ClassDef/value expr)
        self.assign_values: t.Dict[str, ast.expr] = {}  # name -> value expression of last module-level assignment
        for node in ast.walk(self.tree):
            for child in ast.iter_child_nodes(node):
                child._parent = node  # type: ignore[attr-defined]
        self._collect(self.tree.body)

    def _collect(self, body: t.Sequence[ast.stmt]) -> None:
        for st in body:
            if isinstance(st, (ast.Import, ast.ImportFrom)):
                self.imports.update(import_bindings(st, self.name))
            elif isinstance(st, (ast.FunctionDef, ast.ClassDef)):
                self.toplevel[st.name] = st
            elif isinstance(st, ast.Assign):
                for tgt in st.targets:
                    for nm, val in _unpack_assign(tgt, st.value):
                        self.toplevel[nm] = val
                        self.assign_values[nm] = val
            elif isinstance(st, ast.AnnAssign) and isinstance(st.target, ast.Name) and st.value is not None:
                self.toplevel[st.target.id] = st.value
                self.assign_values[st.target.id] = st.value
            elif isinstance(st, ast.Try):
                self._collect(st.body)
                for h in st.handlers:
                    self._collect(h.body)
                self._collect(st.orelse)
            elif isinstance(st, ast.If):
                self._collect(st.body)
                self._collect(st.orelse)

    def line(self, lineno: int) -> str:
        return self.lines[lineno - 1].strip() if 0 < lineno <= len(self.lines) else ''


def _unpack_assign(tgt: ast.expr, val: ast.expr) -> t.Iterator[t.Tuple[str, ast.expr]]:
    if isinstance(tgt, ast.Name):
        yield tgt.id, val
    elif isinstance(tgt, (ast.Tuple, ast.List)) and isinstance(val, (ast.Tuple, ast.List)) \
            and len(tgt.elts) == len(val.elts):
        for a, b in zip(tgt.elts, val.elts):
            yield from _unpack_assign(a, b)


def import_bindings(st: t.Union[ast.Import, ast.ImportFrom], modname: str) -> t.Dict[str, str]:
    out: t.Dict[str, str] = {}
    if isinstance(st, ast.Import):
        for a in st.names:
            if a.asname:
                out[a.asname] = a.name
            else:
                out[a.name.split('.')[0]] = a.name.split('.')[0]
    else:
        if st.level:
            parts = modname.split('.')
            # modname is a module (not a package) except for __init__ which we name as the package itself
            base = parts[:len(parts) - st.level] if not modname.endswith('.__init__') else parts[:len(parts) - st.level]
            prefix = '.'.join(base + ([st.module] if st.module else []))
        else:
            prefix = st.module or ''
        for a in st.names:
            out[a.asname or a.name] = f"{prefix}.{a.name}" if prefix else a.name
    return out


class FuncInfo:
    def __init__(self, name: str, qualname: str, module: Module, node: t.Union[ast.FunctionDef, ast.Lambda],
                 cls: t.Optional['ClassInfo'], parent: t.Optional['FuncInfo']):
        self.name = name
        self.qualname = qualname
        self.module = module
        self.node = node
        self.cls = cls
        self.parent = parent
        self.local_imports: t.Dict[str, str] = {}
        if isinstance(node, ast.FunctionDef):
            for sub in ast.walk(node):
                if isinstance(sub, (ast.Import, ast.ImportFrom)):
                    self.local_imports.update(import_bindings(sub, module.name))

    @property
    def params(self) -> t.List[str]:
        a = self.node.args
        return [x.arg for x in (*a.posonlyargs, *a.args)] + ([a.vararg.arg] if a.vararg else []) \
            + [x.arg for x in a.kwonlyargs] + ([a.kwarg.arg] if a.kwarg else [])

    @property
    def decorators(self) -> t.List[ast.expr]:
        return list(getattr(self.node, 'decorator_list', []))

    @property
    def lineno(self) -> int:
        return self.node.lineno

    def loc(self, node: t.Optional[ast.AST] = None) -> str:
        ln = getattr(node, 'lineno', None) if node is not None else self.node.lineno
        return f"{self.module.relpath}:{ln}"

    def __repr__(self) -> str:
        return f"<Func {self.qualname}>"


class ClassInfo:
    def __init__(self, name: str, qualname: str, module: Module, node: ast.ClassDef):
        self.name = name
        self.qualname = qualname
        self.module = module
        self.node = node
        self.bases: t.List[str] = []
        self.methods: t.Dict[str, FuncInfo] = {}
        self.attr_annotations: t.Dict[str, ast.expr] = {}
        self.attr_values: t.Dict[str, ast.expr] = {}
        self.keywords: t.Dict[str, ast.expr] = {kw.arg: kw.value for kw in node.keywords if kw.arg}

    def __repr__(self) -> str:
        return f"<Class {self.qualname}>"


class Model:
    def __init__(self, root: str, overrides: t.Optional[t.Dict[str, str]] = None):
        self.root = root
        self.modules: t.Dict[str, Module] = {}
        self.classes: t.Dict[str, ClassInfo] = {}
        self.functions: t.Dict[str, FuncInfo] = {}
        self.func_by_node: t.Dict[int, FuncInfo] = {}
        self.function_variants: t.Dict[str, t.List[FuncInfo]] = {}
        overrides = overrides or {}
        pkg_dir = os.path.join(root, PKG)
        if not os.path.isdir(pkg_dir):
            raise AnalysisError(f"package directory {pkg_dir} not found")
        h = hashlib.sha256()
        for dirpath, dirnames, filenames in sorted(os.walk(pkg_dir)):
            dirnames[:] = sorted(d for d in dirnames if d != '__pycache__')
            for fn in sorted(filenames):
                if not fn.endswith('.py'):
                    continue
                full = os.path.join(dirpath, fn)
                rel = os.path.relpath(full, root)
                src = overrides[rel] if rel in overrides else open(full, encoding='utf-8').read()
                h.update(rel.encode() + b'\0' + src.encode() + b'\0')
                modname = rel[:-3].replace(os.sep, '.')
                if modname.endswith('.__init__'):
                    modname = modname[:-len('.__init__')] + '.__init__'
                try:
                    self.modules[modname] = Module(modname, rel, src)
                except SyntaxError as e:
                    raise AnalysisError(f"{rel} does not parse: {e}")
        self.digest = h.hexdigest()
        for m in self.modules.values():
            self._index_module(m)
        for c in self.classes.values():
            c.bases = [b for b in (self.resolve(strip_subscript(be), c.module) for be in c.node.bases) if b]
        self._mro_cache: t.Dict[str, t.List[str]] = {}
        self.expanded: t.Dict[str, int] = {}      # function -> number of classifier comparisons rewritten (see expand.py)
        self._expand_classifiers()

    def _expand_classifiers(self) -> None:
        from .expand import split_conditional_rebind_return, counting_loops_to_sum, fold_temporaries_into_return
        from .expand import expand_function, split_conditional_returns, fold_attribute_aliases, generator_to_genexp, merge_isinstance_chains, inline_import_helpers, spread_kwargs_dicts, inline_method_aliases, loops_to_comprehensions, merge_boolean_returns
        for f in list(self.functions.values()):
            fn = f.node
            if not isinstance(fn, ast.FunctionDef):
                continue
            na = inline_method_aliases(fn)
            na += merge_isinstance_chains(fn)
            if f.module.name in ('pane.converters', 'pane.classes'):
                na += split_conditional_returns(fn)
            na += merge_boolean_returns(fn)
            if f.module.name in ('pane.field', 'pane.util', 'pane.io', 'pane.annotations'):
                na += split_conditional_rebind_return(fn)
                from .expand import ladder_result_to_returns
                na += ladder_result_to_returns(fn)
                if f.cls is not None:
                    na += fold_temporaries_into_return(fn)
            na += spread_kwargs_dicts(fn)
            if not f.module.name.startswith('pane.converters') and not f.module.name.startswith('pane.errors'):
                na += generator_to_genexp(fn)

            def lookup(call: ast.Call, f: FuncInfo = f) -> t.Optional[ast.FunctionDef]:
                q = self.resolve(call.func, f.module, f)
                g = self.functions.get(q or '')
                if g is None or g is f or g.cls is not None or g.parent is not None or not isinstance(g.node, ast.FunctionDef):
                    return None
                return g.node
            from .expand import inline_expression_helpers
            na += inline_expression_helpers(fn, lambda call, f=f, lookup=lookup: (lambda g: g if g is not None and (self.functions.get(self.resolve(call.func, f.module, f) or '') or f).module is f.module else None)(lookup(call)),
                                            (lambda nm, f=f: (lambda m_: m_.node if m_ is not None and isinstance(m_.node, ast.FunctionDef) else None)(self.find_method(f.cls.qualname, nm))) if f.cls is not None else None)
            ni = inline_import_helpers(fn, lookup)
            if ni:
                na += ni
                for sub_ in ast.walk(fn):
                    if isinstance(sub_, (ast.Import, ast.ImportFrom)):
                        f.local_imports.update(import_bindings(sub_, f.module.name))
            if not f.module.name.startswith('pane.converters'):
                # (the converter passes are analysed on their control flow as written: their loops carry try / except)
                na += counting_loops_to_sum(fn)
                na += loops_to_comprehensions(fn)
            if f.cls is not None and f.module.name in ('pane.classes',):
                from .expand import locals_to_attributes
                na += locals_to_attributes(fn)
            if f.cls is not None:
                for _i in range(4):
                    k_ = fold_attribute_aliases(fn)
                    na += k_
                    if not k_:
                        break
            if na:
                self.expanded[f.qualname] = self.expanded.get(f.qualname, 0) + na
                for p_ in ast.walk(fn):
                    for ch in ast.iter_child_nodes(p_):
                        ch._parent = p_  # type: ignore[attr-defined]

            def resolve(call: ast.Call, f: FuncInfo = f) -> t.Optional[t.Tuple[ast.FunctionDef, bool]]:
                fx = call.func
                g: t.Optional[FuncInfo] = None
                via_instance = False
                if isinstance(fx, ast.Attribute) and isinstance(fx.value, ast.Name):
                    if f.cls is not None and f.params and fx.value.id == f.params[0]:
                        g = self.find_method(f.cls.qualname, fx.attr)
                        via_instance = True
                    else:
                        q = self.resolve(fx.value, f.module, f)
                        if q in self.classes:
                            g = self.find_method(q, fx.attr)
                elif isinstance(fx, ast.Name):
                    q = self.resolve(fx, f.module, f)
                    g = self.functions.get(q or '')
                    if g is not None and g.cls is not None:
                        g = None
                if g is None or g is f or not isinstance(g.node, ast.FunctionDef):
                    return None
                static = any(isinstance(d, ast.Name) and d.id == 'staticmethod' for d in g.node.decorator_list)
                has_recv = g.cls is not None and not static and via_instance
                if g.cls is not None and not static and not via_instance:
                    return None
                return g.node, has_recv
            try:
                n = expand_function(fn, resolve)
            except RecursionError:
                n = 0
            if n:
                self.expanded[f.qualname] = self.expanded.get(f.qualname, 0) + n
                for p_ in ast.walk(fn):
                    for ch in ast.iter_child_nodes(p_):
                        ch._parent = p_  # type: ignore[attr-defined]

    # ------------------------------------------------------------------ indexing

    def _index_module(self, m: Module) -> None:
        def visit_body(body: t.Sequence[ast.stmt], prefix: str, cls: t.Optional[ClassInfo], parent: t.Optional[FuncInfo]):
            for st in body:
                if isinstance(st, ast.FunctionDef):
                    self._index_function(m, st, prefix, cls, parent)
                elif isinstance(st, ast.ClassDef):
                    qn = f"{prefix}.{st.name}"
                    ci = ClassInfo(st.name, qn, m, st)
                    self.classes.setdefault(qn, ci)
                    for sub in st.body:
                        if isinstance(sub, ast.AnnAssign) and isinstance(sub.target, ast.Name):
                            ci.attr_annotations[sub.target.id] = sub.annotation
                            if sub.value is not None:
                                ci.attr_values[sub.target.id] = sub.value
                        elif isinstance(sub, ast.Assign):
                            for tg in sub.targets:
                                if isinstance(tg, ast.Name):
                                    ci.attr_values[tg.id] = sub.value
                    visit_body(st.body, qn, ci, parent)
                elif isinstance(st, (ast.If, ast.Try, ast.With, ast.For, ast.While)):
                    for fld in ('body', 'orelse', 'finalbody'):
                        visit_body(getattr(st, fld, []) or [], prefix, cls, parent)
                    for hd in getattr(st, 'handlers', []) or []:
                        visit_body(hd.body, prefix, cls, parent)
        self._visit_body = visit_body
        modprefix = m.name[:-len('.__init__')] if m.name.endswith('.__init__') else m.name
        visit_body(m.tree.body, modprefix, None, None)

    def _index_function(self, m: Module, node: ast.FunctionDef, prefix: str,
                        cls: t.Optional[ClassInfo], parent: t.Optional[FuncInfo]) -> FuncInfo:
        qn = f"{prefix}.{node.name}"
        is_overload = any(isinstance(d, ast.Attribute) and d.attr == 'overload' or
                          isinstance(d, ast.Name) and d.id == 'overload' for d in node.decorator_list)
        fi = FuncInfo(node.name, qn, m, node, cls if parent is None or parent.cls is not cls else cls, parent)
        if not is_overload:
            # the first non-overload definition is the primary one (the only duplicates in the
            # repository are the ``try: import numpy ... except ImportError:`` twins, whose
            # first body is the real implementation); all variants are kept.
            self.function_variants.setdefault(qn, []).append(fi)
            if qn not in self.functions:
                self.functions[qn] = fi
                if cls is not None and (parent is None):
                    cls.methods[node.name] = fi
        self.func_by_node[id(node)] = fi
        # nested defs and lambdas
        self._index_nested(m, node, qn, fi)
        return fi

    def _index_nested(self, m: Module, node: ast.AST, qn: str, fi: FuncInfo) -> None:
        lam_count = [0]

        def walk(n: ast.AST):
            for ch in ast.iter_child_nodes(n):
                if isinstance(ch, ast.FunctionDef):
                    self._index_function(m, ch, qn, None, fi)
                elif isinstance(ch, ast.ClassDef):
                    continue
                elif isinstance(ch, ast.Lambda):
                    lam_count[0] += 1
                    lq = f"{qn}.<lambda{lam_count[0]}>"
                    lf = FuncInfo('<lambda>', lq, m, ch, None, fi)
                    self.functions[lq] = lf
                    self.func_by_node[id(ch)] = lf
                    walk(ch)
                else:
                    walk(ch)
        walk(node)

    # ------------------------------------------------------------------ resolution

    def module_of(self, qual: str) -> t.Optional[Module]:
        return self.modules.get(qual) or self.modules.get(qual + '.__init__')

    def resolve(self, expr: ast.AST, module: Module, func: t.Optional[FuncInfo] = None,
                local_names: t.Optional[t.Set[str]] = None) -> t.Optional[str]:
        """Qualified dotted name denoted by a Name/Attribute chain, or None."""
        if isinstance(expr, ast.Name):
            if local_names and expr.id in local_names:
                return None
            f = func
            while f is not None:
                if expr.id in f.local_imports:
                    return self.canonical(f.local_imports[expr.id])
                f = f.parent
            if expr.id in module.imports:
                return self.canonical(module.imports[expr.id])
            if expr.id in module.toplevel:
                modprefix = module.name[:-len('.__init__')] if module.name.endswith('.__init__') else module.name
                return f"{modprefix}.{expr.id}"
            if expr.id in BUILTIN_NAMES:
                return f"builtins.{expr.id}"
            return None
        if isinstance(expr, ast.Attribute):
            base = self.resolve(expr.value, module, func, local_names)
            if base is None:
                return None
            return self.canonical(f"{base}.{expr.attr}")
        if isinstance(expr, ast.Constant) and expr.value is None:
            return 'builtins.None'
        return None

    def canonical(self, qual: str, _depth: int = 0) -> str:
        """Follow re-exports inside the package: pane.converters.make_converter -> pane.convert.make_converter."""
        if _depth > 8 or not qual.startswith(PKG + '.'):
            return _STD_ALIASES.get(qual, qual)
        parts = qual.split('.')
        for i in range(len(parts) - 1, 0, -1):
            m = self.module_of('.'.join(parts[:i]))
            if m is not None:
                rest = parts[i:]
                if rest and rest[0] in m.imports and rest[0] not in m.toplevel:
                    target = m.imports[rest[0]]
                    return self.canonical('.'.join([target, *rest[1:]]), _depth + 1)
                return qual
        return qual

    # ------------------------------------------------------------------ classes

    def mro(self, qual: str) -> t.List[str]:
        if qual in self._mro_cache:
            return self._mro_cache[qual]
        out = [qual]
        ci = self.classes.get(qual)
        if ci is not None:
            for b in ci.bases:
                for x in self.mro(b):
                    if x not in out:
                        out.append(x)
        self._mro_cache[qual] = out
        return out

    def is_subclass(self, qual: str, base: str) -> bool:
        return base in self.mro(qual)

    def find_method(self, cls_qual: str, name: str) -> t.Optional[FuncInfo]:
        for c in self.mro(cls_qual):
            ci = self.classes.get(c)
            if ci is not None and name in ci.methods:
                return ci.methods[name]
        return None

    def converter_family(self) -> t.List[ClassInfo]:
        base = f'{PKG}.converters.Converter'
        if base not in self.classes:
            raise AnalysisError(f"anchor class {base} not found")
        fam = [c for q, c in self.classes.items() if q != base and self.is_subclass(q, base)]
        return sorted(fam, key=lambda c: (c.module.relpath, c.node.lineno))

    def func(self, qual: str) -> FuncInfo:
        f = self.functions.get(qual)
        if f is None:
            raise AnalysisError(f"anchor function {qual} not found")
        return f

    def cls(self, qual: str) -> ClassInfo:
        c = self.classes.get(qual)
        if c is None:
            raise AnalysisError(f"anchor class {qual} not found")
        return c

    def module(self, name: str) -> Module:
        m = self.module_of(name)
        if m is None:
            raise AnalysisError(f"anchor module {name} not found")
        return m

    def table(self, modname: str, name: str) -> ast.expr:
        m = self.module(modname)
        v = m.assign_values.get(name)
        if v is None:
            raise AnalysisError(f"anchor table {modname}.{name} not found")
        # strip t.cast(T, value)
        while isinstance(v, ast.Call) and self.resolve(v.func, m) == 'typing.cast' and len(v.args) == 2:
            v = v.args[1]
        return v

    def enclosing_function(self, node: ast.AST) -> t.Optional[FuncInfo]:
        n = getattr(node, '_parent', None)
        while n is not None:
            if id(n) in self.func_by_node:
                return self.func_by_node[id(n)]
            n = getattr(n, '_parent', None)
        return None

    def all_functions(self) -> t.List[FuncInfo]:
        return sorted(self.functions.values(), key=lambda f: (f.module.relpath, f.lineno, f.qualname))


_STD_ALIASES = {
    # typing aliases of collections.abc / builtins that denote the same runtime class for isinstance / issubclass
}


def strip_subscript(e: ast.expr) -> ast.expr:
    while isinstance(e, ast.Subscript):
        e = e.value
    return e


def unparse(node: t.Optional[ast.AST]) -> str:
    if node is None:
        return '<none>'
    try:
        return ast.unparse(node)
    except Exception:  # pragma: no cover
        return f"<{type(node).__name__}>"


def parent(node: ast.AST) -> t.Optional[ast.AST]:
    return getattr(node, '_parent', None)


def ancestors(node: ast.AST) -> t.Iterator[ast.AST]:
    n = parent(node)
    while n is not None:
        yield n
        n = parent(n)
