"""Module-level tables of the package, found by their role (what they map), not by their private names.

Renaming a private table must not change any verdict, so every rule asks this module for the qualified name."""
from __future__ import annotations

import ast
import typing as t

from .model import AnalysisError, Model


def _dicts(model: Model, modname: str) -> t.Iterator[t.Tuple[str, ast.Dict]]:
    m = model.module(modname)
    for nm, v in m.assign_values.items():
        while isinstance(v, ast.Call) and model.resolve(v.func, m) == 'typing.cast' and len(v.args) == 2:
            v = v.args[1]
        if isinstance(v, ast.Dict):
            yield nm, v


def _keys(model: Model, modname: str, d: ast.Dict) -> t.Set[str]:
    m = model.module(modname)
    out = set()
    for k in d.keys:
        if k is not None:
            q = model.resolve(k, m)
            if q:
                out.add(q)
    return out


def _cached(model: Model, key: str, compute: t.Callable[[], str]) -> str:
    cache: t.Dict[str, str] = model.__dict__.setdefault('_anchor_cache', {})
    if key not in cache:
        cache[key] = compute()
    return cache[key]


def _one(cands: t.List[str], what: str) -> str:
    if len(cands) != 1:
        raise AnalysisError(f"anchor table for {what} not found (candidates: {cands})")
    return cands[0]


def scalar_table(model: Model) -> str:
    """type -> converter instance, for the scalar types (int, str, float, ...)."""
    def f() -> str:
        mod = 'pane.converters'
        return _one([f"{mod}.{nm}" for nm, d in _dicts(model, mod) if {'builtins.int', 'builtins.str', 'builtins.float'} <= _keys(model, mod, d)],
                    'the scalar converters')
    return _cached(model, 'scalar', f)


def args_table(model: Model) -> str:
    """parametrised type -> converter class (re.Pattern ...)."""
    def f() -> str:
        mod = 'pane.converters'
        return _one([f"{mod}.{nm}" for nm, d in _dicts(model, mod) if 're.Pattern' in _keys(model, mod, d)
                     and 'builtins.int' not in _keys(model, mod, d)], 'the parametrised scalar converters')
    return _cached(model, 'args', f)


def abstract_table(model: Model) -> str:
    """abstract collection type -> concrete type."""
    def f() -> str:
        mod = 'pane.convert'
        return _one([f"{mod}.{nm}" for nm, d in _dicts(model, mod) if 'collections.abc.Sequence' in _keys(model, mod, d)],
                    'the abstract-to-concrete collection mapping')
    return _cached(model, 'abstract', f)


def hash_table(model: Model) -> str:
    def f() -> str:
        mod = 'pane.classes'
        c = []
        for nm, d in _dicts(model, mod):
            if d.keys and all(isinstance(k, ast.Tuple) and len(k.elts) == 4 and all(isinstance(e, ast.Constant) and isinstance(e.value, bool)
                                                                                      for e in k.elts) for k in d.keys):
                c.append(f"{mod}.{nm}")
        return _one(c, 'the hash action table')
    return _cached(model, 'hash', f)


def joiner_table(model: Model) -> str:
    def f() -> str:
        mod = 'pane.field'
        m = model.module(mod)
        styles = None
        v = m.assign_values.get('RenameStyle')
        if isinstance(v, ast.Subscript):
            elts = v.slice.elts if isinstance(v.slice, ast.Tuple) else [v.slice]
            styles = {e.value for e in elts if isinstance(e, ast.Constant)}
        c = []
        for nm, d in _dicts(model, mod):
            ks = {k.value for k in d.keys if isinstance(k, ast.Constant)}
            if ks and (styles is None or ks & styles) and all(isinstance(x, (ast.Lambda, ast.Name, ast.Attribute)) for x in d.values):
                c.append(f"{mod}.{nm}")
        return _one(c, 'the rename-style joiners')
    return _cached(model, 'joiner', f)


def global_handlers(model: Model) -> str:
    """The process-wide handler list: the module-level list that register_converter_handler appends to."""
    def f() -> str:
        mod = 'pane.convert'
        m = model.module(mod)
        reg = model.func(f'{mod}.register_converter_handler')
        c = set()
        for x in ast.walk(reg.node):
            if isinstance(x, ast.Call) and isinstance(x.func, ast.Attribute) and x.func.attr in ('append', 'insert', 'extend') \
                    and isinstance(x.func.value, ast.Name) and isinstance(m.assign_values.get(x.func.value.id), ast.List):
                c.add(f"{mod}.{x.func.value.id}")
            if isinstance(x, (ast.Assign, ast.AugAssign)):
                tgts = x.targets if isinstance(x, ast.Assign) else [x.target]
                for tg in tgts:
                    if isinstance(tg, ast.Name) and isinstance(m.assign_values.get(tg.id), ast.List):
                        c.add(f"{mod}.{tg.id}")
        return _one(sorted(c), 'the registered (global) handlers')
    return _cached(model, 'global', f)


def short(q: str) -> str:
    return q.rsplit('.', 1)[-1]
