"""Outcome formulas of small decision functions (``__eq__``, the three-way comparison, predicates ...).

For a function made of ``if`` / ``for`` / ``return`` / ``raise`` / assignments, every way of leaving it is described by a
propositional formula over the normal forms of its atomic conditions (``norm.literal``):

* ``return <constant>`` / ``return NotImplemented``      -> an outcome with that value,
* ``return a if c else b``                                -> split on ``c``,
* ``return <Boolean expression>``                         -> outcomes ``True`` / ``False`` under the expression / its negation,
* ``all(e for x in xs if f)`` / ``any(...)`` as (part of) a condition -> a quantified atom ``E[k]`` ("some element satisfies k"),
  where ``k`` is a canonical key (truth table over sorted atoms) of the element formula,
* a ``for`` loop that can be left from inside: with S the per-element condition for leaving, what follows the loop holds under
  ``not E[S]`` and an exit taken inside holds under ``E[S]`` and the exit's own condition at the *first* element satisfying S
  (atoms about the element are renamed ``@first:<atom>``).

So ``for f in fs: if not ok(f): return False`` + ``return True`` and ``return all(ok(f) for f in fs)`` get the same formulas,
while swapping ``all`` / ``any``, dropping a filter, or testing another attribute changes them.  Formulas are compared as
Boolean functions (truth tables), after the caller maps atoms to roles.
"""
from __future__ import annotations

import ast
import typing as t

from .cfg import CFG, Node, cfg_of
from .model import AnalysisError, FuncInfo, Model, unparse
from .norm import Normalizer

TRUE: t.Any = ('true',)
FALSE: t.Any = ('false',)


def f_and(*xs: t.Any) -> t.Any:
    out = []
    for x in xs:
        if x == FALSE:
            return FALSE
        if x == TRUE:
            continue
        out.append(x)
    if not out:
        return TRUE
    return out[0] if len(out) == 1 else ('and', tuple(out))


def f_or(*xs: t.Any) -> t.Any:
    out = []
    for x in xs:
        if x == TRUE:
            return TRUE
        if x == FALSE:
            continue
        out.append(x)
    if not out:
        return FALSE
    return out[0] if len(out) == 1 else ('or', tuple(out))


def f_not(x: t.Any) -> t.Any:
    if x == TRUE:
        return FALSE
    if x == FALSE:
        return TRUE
    if x[0] == 'not':
        return x[1]
    return ('not', x)


def var(name: str) -> t.Any:
    return ('var', name)


def variables(f: t.Any, acc: t.Optional[t.Set[str]] = None) -> t.Set[str]:
    acc = set() if acc is None else acc
    if f[0] == 'var':
        acc.add(f[1])
    elif f[0] == 'not':
        variables(f[1], acc)
    elif f[0] in ('and', 'or'):
        for y in f[1]:
            variables(y, acc)
    return acc


def rename(f: t.Any, fn: t.Callable[[str], str]) -> t.Any:
    if f[0] == 'var':
        return var(fn(f[1]))
    if f[0] == 'not':
        return f_not(rename(f[1], fn))
    if f[0] in ('and', 'or'):
        return (f_and if f[0] == 'and' else f_or)(*[rename(y, fn) for y in f[1]])
    return f


def truth_table(f: t.Any, order: t.Sequence[str]) -> int:
    n = len(order)
    if n > 20:
        raise AnalysisError(f"formula over {n} atoms is too large to compare")
    idx = {nm: i for i, nm in enumerate(order)}
    out = 0
    for row in range(1 << n):
        def ev(x: t.Any) -> bool:
            if x == TRUE:
                return True
            if x == FALSE:
                return False
            if x[0] == 'var':
                i = idx.get(x[1])
                return bool((row >> i) & 1) if i is not None else False   # an inessential atom: any value will do
            if x[0] == 'not':
                return not ev(x[1])
            if x[0] == 'and':
                return all(ev(y) for y in x[1])
            return any(ev(y) for y in x[1])
        if ev(f):
            out |= 1 << row
    return out


def support(f: t.Any) -> t.List[str]:
    """Atoms the formula really depends on."""
    vs = sorted(variables(f))
    if not vs:
        return []
    tt = truth_table(f, vs)
    out = []
    for i, nm in enumerate(vs):
        dep = False
        for row in range(1 << len(vs)):
            if not (row >> i) & 1:
                a = (tt >> row) & 1
                b = (tt >> (row | (1 << i))) & 1
                if a != b:
                    dep = True
                    break
        if dep:
            out.append(nm)
    return out


def key(f: t.Any) -> str:
    """Canonical text of a Boolean function: its essential atoms (sorted) and its truth table over them."""
    sup = support(f)
    if not sup:
        return 'TRUE' if truth_table(f, []) else 'FALSE'
    tt = truth_table(f, sup)
    # common shapes are printed readably; the text is canonical either way
    return f"{{{' ; '.join(sup)}}}#{tt:x}"


def equivalent(a: t.Any, b: t.Any) -> bool:
    vs = sorted(variables(a) | variables(b))
    return truth_table(a, vs) == truth_table(b, vs)


def exists(elem_formula: t.Any) -> t.Any:
    if elem_formula == FALSE:
        return FALSE
    return var(f"E[{key(elem_formula)}]")


def at_first(stop: t.Any, f: t.Any, is_elem_atom: t.Callable[[str], bool]) -> t.Any:
    """Condition ``f`` of an exit taken inside a loop, at the first element that satisfies ``stop``: the canonical function
    ``stop -> f`` with the element's atoms renamed ``@first:<atom>`` (TRUE when the exit is the only way to stop)."""
    if equivalent(f_and(stop, f), stop):
        return TRUE
    g = f_or(f_not(stop), f)
    return rename(g, lambda nm: f"@first:{nm}" if is_elem_atom(nm) else nm)


class Outcome:
    def __init__(self, kind: str, value: str, formula: t.Any, node: t.Optional[ast.AST]):
        self.kind, self.value, self.formula, self.node = kind, value, formula, node

    def __repr__(self) -> str:
        return f"<{self.kind} {self.value} when {self.formula}>"


class _Rel:
    """Result of interpreting a block relative to its entry: fall-through / continue / break conditions."""
    def __init__(self) -> None:
        self.through: t.Any = FALSE
        self.cont: t.Any = FALSE
        self.brk: t.Any = FALSE


class Outcomes:
    def __init__(self, model: Model, func: FuncInfo, param_map: t.Optional[t.Dict[str, str]] = None, inline_unique_methods: bool = True,
                 atom_map: t.Optional[t.Callable[[str], str]] = None, _depth: int = 0):
        self.model, self.func = model, func
        self._depth = _depth
        self.atom_map = atom_map      # names atoms by their role, so that keys of quantified atoms are comparable with a specification
        self.cfg: CFG = cfg_of(model, func)
        self.nz = Normalizer(model, func, self.cfg, param_map=param_map, inline_unique_methods=inline_unique_methods)
        self.out: t.List[Outcome] = []
        self._assigned: t.Dict[str, t.List[t.Tuple[t.Any, ast.AST]]] = {}
        if not isinstance(func.node, (ast.FunctionDef, ast.Lambda)):
            raise AnalysisError(f"{func.loc()}: not a plain function")
        body = func.node.body if isinstance(func.node, ast.FunctionDef) else [ast.Return(value=func.node.body)]
        rel = self._block(body, TRUE, self.out)
        if rel.through != FALSE:
            self.out.append(Outcome('return', 'None', rel.through, None))

    # ------------------------------------------------------------------ statements

    def _node(self, e: ast.AST) -> Node:
        n = self.cfg.node_of(e)
        if n is None:
            # unreachable code or a synthetic node: fall back to the entry
            return self.cfg.entry
        return n

    def _block(self, body: t.Sequence[ast.stmt], cond: t.Any, out: t.List[Outcome]) -> _Rel:
        rel = _Rel()
        cur = cond
        for st in body:
            if cur == FALSE:
                break
            if isinstance(st, ast.If):
                f = self.formula(st.test, {})
                a = self._block(st.body, f_and(cur, f), out)
                b = self._block(st.orelse, f_and(cur, f_not(f)), out)
                rel.cont = f_or(rel.cont, a.cont, b.cont)
                rel.brk = f_or(rel.brk, a.brk, b.brk)
                cur = f_or(a.through, b.through)
            elif isinstance(st, ast.Return):
                self._value(st.value, cur, out, st)
                cur = FALSE
            elif isinstance(st, ast.Raise):
                e = st.exc.func if isinstance(st.exc, ast.Call) else st.exc
                q = (self.model.resolve(e, self.func.module, self.func) if e is not None else None) or (unparse(e) if e is not None else 're-raise')
                out.append(Outcome('raise', q.replace('builtins.', ''), cur, st))
                cur = FALSE
            elif isinstance(st, ast.Continue):
                rel.cont = f_or(rel.cont, cur)
                cur = FALSE
            elif isinstance(st, ast.Break):
                rel.brk = f_or(rel.brk, cur)
                cur = FALSE
            elif isinstance(st, ast.For):
                cur = self._loop(st, cur, out)
            elif isinstance(st, (ast.Assign, ast.AnnAssign)):
                # `result = <expr>` under the current path condition (read back by `return result`)
                tg = st.targets[0] if isinstance(st, ast.Assign) and len(st.targets) == 1 else (st.target if isinstance(st, ast.AnnAssign) else None)
                if isinstance(tg, ast.Name) and st.value is not None:
                    self._assigned.setdefault(tg.id, []).append((cur, st.value))
                continue
            elif isinstance(st, (ast.AugAssign, ast.Pass, ast.Expr, ast.Assert, ast.Import, ast.ImportFrom,
                                 ast.FunctionDef, ast.Global, ast.Nonlocal)):
                continue       # locals are resolved by the normaliser (reaching definitions)
            else:
                raise AnalysisError(f"{self.func.loc(st)}: statement `{type(st).__name__}` is outside the decision-function fragment")
        rel.through = cur
        return rel

    def _loop(self, st: ast.For, cond: t.Any, out: t.List[Outcome]) -> t.Any:
        inner: t.List[Outcome] = []
        rel = self._block(st.body, TRUE, inner)
        leave = f_or(*[o.formula for o in inner])
        stop = f_or(leave, rel.brk)
        marker = self._elem_marker(st)
        e_stop = exists(stop)

        def first(f: t.Any) -> t.Any:
            return at_first(stop, f, lambda nm: bool(marker) and any(mk in nm for mk in marker) or (self.atom_map is not None and nm.isupper()))
        for o in inner:
            out.append(Outcome(o.kind, o.value, f_and(cond, e_stop, first(o.formula)), o.node))
        after_else = f_and(cond, f_not(e_stop))
        if st.orelse:
            r2 = self._block(st.orelse, after_else, out)
            after_else = r2.through
        after_break = f_and(cond, e_stop, first(rel.brk)) if rel.brk != FALSE else FALSE
        return f_or(after_else, after_break)

    def _elem_marker(self, st: ast.For) -> t.List[str]:
        """Normal forms of the loop's own variables (to tell element atoms from loop-invariant ones)."""
        out = []
        body_node = None
        for x in st.body:
            body_node = self.cfg.node_of(x) or next((self.cfg.node_of(y) for y in ast.walk(x) if self.cfg.node_of(y) is not None), None)
            if body_node is not None:
                break
        if body_node is None:
            return out
        for nm in [y.id for y in ast.walk(st.target) if isinstance(y, ast.Name)]:
            out.append(self.nz.expr(ast.Name(id=nm, ctx=ast.Load()), body_node))
        return out

    # ------------------------------------------------------------------ values and conditions

    def _value(self, v: t.Optional[ast.expr], cond: t.Any, out: t.List[Outcome], st: ast.AST) -> None:
        if v is None:
            out.append(Outcome('return', 'None', cond, st))
            return
        v = self._strip(v)
        if isinstance(v, ast.IfExp):
            f = self.formula(v.test, {})
            self._value(v.body, f_and(cond, f), out, st)
            self._value(v.orelse, f_and(cond, f_not(f)), out, st)
            return
        if isinstance(v, ast.Constant):
            out.append(Outcome('return', repr(v.value), cond, st))
            return
        if isinstance(v, ast.UnaryOp) and isinstance(v.op, ast.USub) and isinstance(v.operand, ast.Constant):
            out.append(Outcome('return', repr(-v.operand.value), cond, st))
            return
        if isinstance(v, ast.Name):
            n = self._node(v)
            form = self.nz.expr(v, n)
            if form in ('builtins.NotImplemented', 'NotImplemented'):
                out.append(Outcome('return', 'NotImplemented', cond, st))
                return
            # a local holding a Boolean expression / constant: follow its single definition
            defs = self.cfg.reaching().at(n, v.id)
            if len(defs) == 1 and defs[0].kind == 'assign' and defs[0].value is not None and not defs[0].path:
                self._value(t.cast(ast.expr, defs[0].value), cond, out, st)
                return
            hist = self._assigned.get(v.id, [])
            if len(defs) > 1 and len(hist) == len(defs) and all(d.kind == 'assign' and not d.path for d in defs) and not self._in_loop(st):
                # one `return result` for a variable assigned in several arms: each assignment holds under its own path
                # condition, unless a later assignment (in program order) also ran
                later: t.Any = FALSE
                for (c_i, e_i) in reversed(hist):
                    self._value(t.cast(ast.expr, e_i), f_and(cond, c_i, f_not(later)), out, st)
                    later = f_or(later, c_i)
                return
            out.append(Outcome('return', form, cond, st))
            return
        if self._is_boolean(v):
            f = self.formula(v, {})
            out.append(Outcome('return', 'True', f_and(cond, f), st))
            out.append(Outcome('return', 'False', f_and(cond, f_not(f)), st))
            return
        out.append(Outcome('return', self.nz.expr(v, self._node(v)), cond, st))

    def _in_loop(self, st: ast.AST) -> bool:
        p = getattr(st, '_parent', None)
        while p is not None and p is not self.func.node:
            if isinstance(p, (ast.For, ast.While)):
                return True
            p = getattr(p, '_parent', None)
        return False

    def _strip(self, v: ast.expr) -> ast.expr:
        while True:
            if isinstance(v, ast.Call) and len(v.args) == 2 and self.model.resolve(v.func, self.func.module, self.func) == 'typing.cast':
                v = v.args[1]
            elif isinstance(v, ast.Call) and isinstance(v.func, ast.Name) and v.func.id == 'bool' and len(v.args) == 1:
                v = v.args[0]
            else:
                return v

    def _is_boolean(self, v: ast.expr) -> bool:
        if isinstance(v, (ast.Compare, ast.BoolOp)):
            return True
        if isinstance(v, ast.UnaryOp) and isinstance(v.op, ast.Not):
            return True
        if isinstance(v, ast.Call) and isinstance(v.func, ast.Name) and v.func.id in ('all', 'any', 'isinstance', 'issubclass', 'hasattr', 'callable'):
            return True
        return False

    def formula(self, test: ast.expr, bound: t.Dict[str, str]) -> t.Any:
        test = self._strip(test)
        if isinstance(test, ast.UnaryOp) and isinstance(test.op, ast.Not):
            return f_not(self.formula(test.operand, bound))
        if isinstance(test, ast.BoolOp):
            parts = [self.formula(v, bound) for v in test.values]
            return f_and(*parts) if isinstance(test.op, ast.And) else f_or(*parts)
        if isinstance(test, ast.Compare) and len(test.ops) > 1:
            parts = []
            left = test.left
            for op, right in zip(test.ops, test.comparators):
                parts.append(self.formula(ast.copy_location(ast.Compare(left=left, ops=[op], comparators=[right]), test), bound))
                left = right
            return f_and(*parts)
        if isinstance(test, ast.Call) and isinstance(test.func, ast.Name) and test.func.id in ('all', 'any') and len(test.args) == 1:
            q = self._quantified(test.func.id, test.args[0], test, bound)
            if q is not None:
                return q
            q = self._quantified_via_helper(test.func.id, test.args[0], test, bound)
            if q is not None:
                return q
        if isinstance(test, ast.Name) and test.id not in bound:
            # a local flag defined once by a Boolean expression
            n = self._node(test)
            defs = self.cfg.reaching().at(n, test.id)
            if len(defs) == 1 and defs[0].kind == 'assign' and defs[0].value is not None and not defs[0].path \
                    and self._is_boolean(self._strip(t.cast(ast.expr, defs[0].value))):
                return self.formula(t.cast(ast.expr, defs[0].value), bound)
        if isinstance(test, ast.Constant):
            return TRUE if test.value else FALSE
        n = self._node(test) if self.cfg.node_of(test) is not None else self._anchor
        if isinstance(test, ast.Call) and self._depth < 3 and not test.keywords and not any(isinstance(a, ast.Starred) for a in test.args):
            # a Boolean helper of the package (`_is_text(val)`): its own outcome formula over the caller's arguments
            q = self.model.resolve(test.func, self.func.module, self.func if isinstance(self.func.node, ast.FunctionDef) else None)
            g = self.model.functions.get(q or '')
            if g is not None and g is not self.func and g.cls is None and isinstance(g.node, ast.FunctionDef) and len(g.params) == len(test.args) \
                    and n is not None:
                try:
                    pm = {p_: self.nz.expr(a, n, bound) for p_, a in zip(g.params, test.args)}
                    sub = Outcomes(self.model, g, pm, atom_map=self.atom_map, _depth=self._depth + 1)
                    bv = sub.by_value()
                    if bv and set(bv) <= {('return', 'True'), ('return', 'False')}:
                        return bv.get(('return', 'True'), FALSE)
                except AnalysisError:
                    pass
        text, pos = self.nz.literal(test, n, bound)
        if self.atom_map is not None:
            text = self.atom_map(text)
        return var(text) if pos else f_not(var(text))

    _anchor: Node = None  # type: ignore[assignment]

    def _quantified(self, which: str, arg: ast.expr, where: ast.expr, bound: t.Dict[str, str]) -> t.Optional[t.Any]:
        if not isinstance(arg, (ast.GeneratorExp, ast.ListComp, ast.SetComp)):
            return None
        n = self._node(where)
        b, _conds = self.nz.comp_bindings(arg.generators, n, bound, 0)
        prev = self._anchor
        self._anchor = n
        try:
            filt = f_and(*[self.formula(c, b) for g in arg.generators for c in g.ifs])
            elt = self.formula(arg.elt, b)
        finally:
            self._anchor = prev
        if which == 'all':
            return f_not(exists(f_and(filt, f_not(elt))))
        return exists(f_and(filt, elt))

    def _quantified_via_helper(self, which: str, arg: ast.expr, where: ast.expr, bound: t.Dict[str, str]) -> t.Optional[t.Any]:
        """``all(helper(a, b))`` where ``helper`` (a function of the package or a closure of an enclosing function) is one
        ``return <generator expression>``: the quantified formula of that generator, with the helper's parameters named by the
        caller's arguments."""
        while isinstance(arg, ast.Call) and isinstance(arg.func, ast.Name) and arg.func.id in ('tuple', 'list', 'iter') and len(arg.args) == 1:
            arg = arg.args[0]
        if not isinstance(arg, ast.Call) or arg.keywords or any(isinstance(a, ast.Starred) for a in arg.args) or self._depth >= 3:
            return None
        g: t.Optional[FuncInfo] = None
        if isinstance(arg.func, ast.Name):
            scope_: t.Optional[FuncInfo] = self.func if isinstance(self.func.node, ast.FunctionDef) else None
            while scope_ is not None and g is None:
                g = self.model.functions.get(f"{scope_.qualname}.{arg.func.id}")
                scope_ = scope_.parent
        if g is None:
            q = self.model.resolve(arg.func, self.func.module, self.func if isinstance(self.func.node, ast.FunctionDef) else None)
            g = self.model.functions.get(q or '')
        if g is None or g is self.func or not isinstance(g.node, ast.FunctionDef) or len(g.params) != len(arg.args):
            return None
        body = [s_ for s_ in g.node.body if not (isinstance(s_, ast.Expr) and isinstance(s_.value, ast.Constant))]
        if len(body) != 1 or not isinstance(body[0], ast.Return) or not isinstance(body[0].value, (ast.GeneratorExp, ast.ListComp)):
            return None
        n = self._node(where) if self.cfg.node_of(where) is not None else self._anchor
        if n is None:
            return None
        pm = dict(self.nz.param_map)
        pm.update({p_: self.nz.expr(a, n, bound) for p_, a in zip(g.params, arg.args)})
        try:
            sub = Outcomes(self.model, g, pm, atom_map=self.atom_map, _depth=self._depth + 1)
        except AnalysisError:
            return None
        return sub._quantified(which, body[0].value, body[0].value, {})

    # ------------------------------------------------------------------ queries

    def by_value(self) -> t.Dict[t.Tuple[str, str], t.Any]:
        d: t.Dict[t.Tuple[str, str], t.Any] = {}
        for o in self.out:
            k = (o.kind, o.value)
            d[k] = f_or(d.get(k, FALSE), o.formula)
        return {k: v for k, v in d.items() if v != FALSE}
