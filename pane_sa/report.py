"""Findings, rule results, known-findings handling and evidence files (DESIGN §1.4)."""
from __future__ import annotations

import json
import os
import time
import typing as t

VERIF_DIR = os.path.dirname(os.path.dirname(os.path.abspath(__file__)))
KNOWN_FILE = os.path.join(VERIF_DIR, 'known_findings.json')
EVIDENCE_DIR = os.path.join(VERIF_DIR, 'evidence')


class Finding:
    def __init__(self, rule: str, where: str, construct: str, loc: str, message: str):
        self.rule = rule              # e.g. 'C03-R1'
        self.where = where            # qualified function / class / table
        self.construct = construct    # normalised construct text (never a line number)
        self.loc = loc                # file:line (for humans only; not part of the key)
        self.message = message

    @property
    def key(self) -> str:
        return f"{self.rule}|{self.where}|{self.construct}"

    def to_json(self) -> t.Dict[str, str]:
        return {'rule': self.rule, 'where': self.where, 'construct': self.construct, 'loc': self.loc,
                'message': self.message, 'key': self.key}

    def __str__(self) -> str:
        return f"{self.loc}  {self.rule}  {self.where}  [{self.construct}]  {self.message}"


class RuleResult:
    def __init__(self, rule: str, title: str, floor: int = 1):
        self.rule = rule
        self.title = title
        self.floor = floor            # minimum number of instances confirmed by hand on the reference tree
        self.instances = 0            # sites / rows / pairs the rule was applied to
        self.obligations = 0
        self.discharged = 0
        self.findings: t.List[Finding] = []
        self.samples: t.List[t.Any] = []
        self.notes: t.List[str] = []
        self.analysed: t.Set[str] = set()   # functions / tables looked at

    def ok(self, n: int = 1) -> None:
        self.obligations += n
        self.discharged += n

    def fail(self, where: str, construct: str, loc: str, message: str) -> None:
        self.obligations += 1
        self.findings.append(Finding(self.rule, where, construct, loc, message))

    def sample(self, s: t.Any) -> None:
        if len(self.samples) < 6:
            self.samples.append(s)

    def note(self, s: str) -> None:
        self.notes.append(s)


def load_known() -> t.Dict[str, t.Any]:
    if not os.path.exists(KNOWN_FILE):
        return {'known': [], 'fixed': []}
    with open(KNOWN_FILE, encoding='utf-8') as f:
        return json.load(f)


def write_evidence(prop: str, tier: str, seed: int, results: t.Sequence[RuleResult], meta: t.Dict[str, t.Any],
                   wall: float, violations: int, known_hits: t.Sequence[str], extra: t.Optional[t.Dict[str, t.Any]] = None) -> str:
    os.makedirs(EVIDENCE_DIR, exist_ok=True)
    obligations = sum(r.obligations for r in results)
    discharged = sum(r.discharged for r in results)
    instances = sum(r.instances for r in results)
    samples: t.List[t.Any] = []
    for r in results:
        for s in r.samples[:3]:
            samples.append({'rule': r.rule, 'case': s})
    analysed = sorted(set().union(*[r.analysed for r in results])) if results else []
    coverage: t.Dict[str, t.Any] = {
        'explanation': meta.get('explanation', ''),
        'obligations': obligations,
        'discharged': discharged,
        'evaluations': max(instances, 1),
        'distinct_nontrivial': max(len({(r.rule, json.dumps(s, sort_keys=True, default=str)) for r in results for s in r.samples}), min(instances, 2)),
        'rule': 'one evaluation = one rule instance (call site, branch literal, table row, method pair or kind x arm cell) '
                'found in the current source of /repo/pane; instances are distinct program constructs',
        'samples': samples or [{'note': 'no instance matched'}],
        'checker_cmd': meta.get('checker_cmd', f'./check {prop} --tier {tier}'),
        'trusted_base': meta.get('trusted_base', []),
        'exhaustive': bool(meta.get('exhaustive', False)),
        'rules': [
            {'rule': r.rule, 'title': r.title, 'instances': r.instances, 'floor': r.floor,
             'obligations': r.obligations, 'discharged': r.discharged,
             'findings': [f.to_json() for f in r.findings], 'notes': r.notes}
            for r in results
        ],
        'analysed': analysed,
        'known_findings_reported': list(known_hits),
    }
    if extra:
        coverage.update(extra)
    ev = {
        'property_id': prop,
        'tier': tier,
        'seed': seed,
        'level': 'other',
        'coverage': coverage,
        'assumptions': meta.get('assumptions', []),
        'wall_s': round(wall, 3),
        'violations': violations,
    }
    path = os.path.join(EVIDENCE_DIR, f'{prop}.json')
    tmp = path + '.tmp'
    with open(tmp, 'w', encoding='utf-8') as f:
        json.dump(ev, f, indent=1, sort_keys=False, default=str)
        f.write('\n')
    os.replace(tmp, path)
    return path
