"""Canonical (normal) forms of expressions and branch conditions (DESIGN §1.3).

``Normalizer.expr`` renders an expression as a string in which
 * import aliases are resolved (``t.Sequence`` -> ``typing.Sequence``),
 * locals are replaced by what they were defined from (reaching definitions), so renaming a local or
   introducing a temporary never changes the normal form,
 * loop variables are named by their provenance in the iterated value
   (``for k, v in val.items()`` -> ``KEY(VAL)``, ``VALUE(VAL)``),
 * ``t.cast(T, x)`` and ``x.copy()`` are transparent.

``Normalizer.literal`` renders an atomic branch condition as ``(atom, polarity)`` with negations pushed
into the polarity and the comparison operators canonicalised (``a != b`` == not ``a == b``,
``a >= b`` == not ``a < b``, ``len(x)`` / ``len(x) != 0`` / ``len(x) > 0`` == ``TRUTHY(x)``).
"""
from __future__ import annotations

import ast
import re
import typing as t

from .cfg import CFG, Def, Node, walk_no_nested
from .model import FuncInfo, Model

MAX_DEPTH = 12


class Normalizer:
    def __init__(self, model: Model, func: FuncInfo, cfg: CFG,
                 param_map: t.Optional[t.Dict[str, str]] = None,
                 name_hook: t.Optional[t.Callable[[str, Node], t.Optional[str]]] = None,
                 inline_unique_methods: bool = True,
                 func_hook: t.Optional[t.Callable[[FuncInfo, t.Dict[str, str]], FuncInfo]] = None):
        self.model = model
        self.func_hook = func_hook    # lets a rule substitute a specialised body when a helper is inlined
        self.func = func
        self.cfg = cfg
        self.rd = cfg.reaching()
        self.name_hook = name_hook
        self.inline_unique_methods = inline_unique_methods
        params = func.params
        pm: t.Dict[str, str] = {}
        is_method = func.cls is not None and isinstance(func.node, ast.FunctionDef) and not any(
            isinstance(d, ast.Name) and d.id == 'staticmethod' for d in func.node.decorator_list)
        rest = params
        if is_method and params:
            pm[params[0]] = 'self' if params[0] == 'self' else 'cls'
            rest = params[1:]
        for i, p in enumerate(rest):
            pm[p] = 'VAL' if i == 0 and is_method and func.name != '__init__' else f'${p}'
        if param_map:
            pm.update(param_map)
        elif is_method and func.name.startswith('_') and not func.name.startswith('__') and rest:
            ctx = _context_params(model, func, rest)
            if ctx:
                pm.update(ctx)
        self.param_map = pm
        self._const_cache: t.Dict[str, t.Optional[str]] = {}
        self._visiting: t.Set[int] = set()

    # ------------------------------------------------------------------ expressions

    def expr(self, e: t.Optional[ast.AST], node: Node, bound: t.Optional[t.Dict[str, str]] = None, depth: int = 0) -> str:
        if e is None:
            return 'None'
        bound = bound or {}
        if depth > MAX_DEPTH:
            return '…'
        X = lambda x, b=bound: self.expr(x, node, b, depth + 1)  # noqa: E731
        if isinstance(e, ast.Constant):
            return repr(e.value)
        if isinstance(e, ast.Name):
            return self._name(e, node, bound, depth)
        if isinstance(e, ast.Attribute):
            q = self._qualified(e, bound)
            if q is not None:
                return q
            return f"{X(e.value)}.{e.attr}"
        if isinstance(e, ast.Subscript):
            return f"{X(e.value)}[{X(e.slice)}]"
        if isinstance(e, ast.Slice):
            return f"{X(e.lower) if e.lower else ''}:{X(e.upper) if e.upper else ''}:{X(e.step) if e.step else ''}"
        if isinstance(e, ast.Call):
            return self._call(e, node, bound, depth)
        if isinstance(e, ast.NamedExpr):
            return X(e.value)
        if isinstance(e, ast.UnaryOp):
            if isinstance(e.op, ast.Not):
                a, pos = self.literal(e.operand, node, bound, depth + 1)
                return a if not pos else f"not {a}"
            return f"{type(e.op).__name__}({X(e.operand)})"
        if isinstance(e, ast.BinOp):
            return f"({X(e.left)} {type(e.op).__name__} {X(e.right)})"
        if isinstance(e, ast.BoolOp):
            parts = [self._lit_str(v, node, bound, depth + 1) for v in e.values]
            return '(' + (' and ' if isinstance(e.op, ast.And) else ' or ').join(parts) + ')'
        if isinstance(e, ast.Compare):
            return self._lit_str(e, node, bound, depth + 1)
        if isinstance(e, ast.IfExp):
            return f"({X(e.body)} if {self._lit_str(e.test, node, bound, depth + 1)} else {X(e.orelse)})"
        if isinstance(e, (ast.Tuple, ast.List)):
            if len(e.elts) == 1 and isinstance(e.elts[0], ast.Starred) and isinstance(e.ctx, ast.Load):
                # (*xs,) is tuple(xs), [*xs] is list(xs)
                inner = e.elts[0].value
                fake = ast.Call(func=ast.Name(id='tuple' if isinstance(e, ast.Tuple) else 'list', ctx=ast.Load()), args=[inner], keywords=[])
                ast.copy_location(fake, e)
                ast.copy_location(fake.func, e)
                return X(fake)
            br = '()' if isinstance(e, ast.Tuple) else '[]'
            return br[0] + ', '.join(X(x) for x in e.elts) + br[1]
        if isinstance(e, ast.Set):
            return '{' + ', '.join(sorted(X(x) for x in e.elts)) + '}'
        if isinstance(e, ast.Dict):
            items = []
            for k, v in zip(e.keys, e.values):
                items.append(f"{X(k) if k is not None else '**'}: {X(v)}")
            return '{' + ', '.join(items) + '}'
        if isinstance(e, ast.Starred):
            return '*' + X(e.value)
        if isinstance(e, ast.JoinedStr):
            return 'FSTR'
        if isinstance(e, ast.FormattedValue):
            return 'FSTR'
        if isinstance(e, ast.Lambda):
            b = dict(bound)
            for i, a in enumerate(e.args.args):
                b[a.arg] = f'λ{i}'
            return f"LAMBDA({self.expr(e.body, node, b, depth + 1)})"
        if isinstance(e, (ast.GeneratorExp, ast.ListComp, ast.SetComp)):
            b, conds = self.comp_bindings(e.generators, node, bound, depth)
            tag = {ast.GeneratorExp: 'GEN', ast.ListComp: 'LIST', ast.SetComp: 'SET'}[type(e)]
            cs = (' if ' + ' and '.join(conds)) if conds else ''
            return f"{tag}({self.expr(e.elt, node, b, depth + 1)}{cs})"
        if isinstance(e, ast.DictComp):
            b, conds = self.comp_bindings(e.generators, node, bound, depth)
            cs = (' if ' + ' and '.join(conds)) if conds else ''
            return f"DICT({self.expr(e.key, node, b, depth + 1)}: {self.expr(e.value, node, b, depth + 1)}{cs})"
        if isinstance(e, ast.Await):
            return X(e.value)
        if isinstance(e, ast.Yield):
            return f"YIELD({X(e.value) if e.value else ''})"
        if isinstance(e, ast.YieldFrom):
            return f"YIELDFROM({X(e.value)})"
        return f"<{type(e).__name__}>"

    def comp_bindings(self, generators: t.Sequence[ast.comprehension], node: Node,
                      bound: t.Dict[str, str], depth: int) -> t.Tuple[t.Dict[str, str], t.List[str]]:
        b = dict(bound)
        conds: t.List[str] = []
        for g in generators:
            for nm, path in _target_paths(g.target):
                b[nm] = self.iter_elem(g.iter, path, node, b, depth + 1)
            conds.extend(self.iter_conds(g.iter, node, b, depth + 1))
            for c in g.ifs:
                conds.append(self._lit_str(c, node, b, depth + 1))
        return b, conds

    def iter_conds(self, it: t.Optional[ast.AST], node: Node, bound: t.Dict[str, str], depth: int) -> t.List[str]:
        """Filters that the iterable itself applies: a generator expression with ``if`` clauses (possibly returned by a zero-argument
        helper, or wrapped in zip / enumerate / list ...) restricts what the outer comprehension sees."""
        if it is None or depth > MAX_DEPTH:
            return []
        hr = self.helper_return(it, node, bound, depth)
        if hr is not None:
            sub, rv, rn = hr
            return sub.iter_conds(rv, rn, {}, depth + 1)
        if isinstance(it, ast.GeneratorExp):
            _b, cs = self.comp_bindings(it.generators, node, bound, depth + 1)
            return cs
        if isinstance(it, ast.Call) and isinstance(it.func, ast.Name) and it.func.id in ('zip', 'enumerate', 'list', 'tuple', 'iter', 'reversed', 'sorted') \
                and it.func.id not in bound and not self.rd.is_local(it.func.id):
            out: t.List[str] = []
            for a in it.args:
                out.extend(self.iter_conds(a, node, bound, depth + 1))
            return out
        if isinstance(it, ast.Name) and self.rd.is_local(it.id) and it.id not in bound:
            defs = self.rd.at(node, it.id)
            if len(defs) == 1 and defs[0].kind == 'assign' and defs[0].value is not None and not defs[0].path \
                    and isinstance(defs[0].value, (ast.GeneratorExp, ast.Call)):
                return self.iter_conds(defs[0].value, defs[0].node, {}, depth + 1)
        return []

    def _lit_str(self, e: ast.expr, node: Node, bound: t.Dict[str, str], depth: int) -> str:
        if isinstance(e, ast.BoolOp):
            parts = [self._lit_str(v, node, bound, depth + 1) for v in e.values]
            return '(' + (' and ' if isinstance(e.op, ast.And) else ' or ').join(parts) + ')'
        if isinstance(e, ast.Compare) and len(e.ops) > 1:
            parts = []
            left = e.left
            for op, right in zip(e.ops, e.comparators):
                parts.append(self._lit_str(ast.Compare(left=left, ops=[op], comparators=[right]), node, bound, depth + 1))
                left = right
            return '(' + ' and '.join(parts) + ')'
        a, pos = self.literal(e, node, bound, depth)
        return a if pos else f"not {a}"

    # ------------------------------------------------------------------ names

    def _name(self, e: ast.Name, node: Node, bound: t.Dict[str, str], depth: int) -> str:
        nm = e.id
        if nm in bound:
            return bound[nm]
        if self.name_hook is not None:
            h = self.name_hook(nm, node)
            if h is not None:
                return h
        if self.rd.is_local(nm):
            defs = self.rd.at(node, nm)
            # a use inside the defining statement of a loop target etc. sees the incoming defs
            if not defs:
                # e.g. a use in unreachable code, or a name defined only later: fall back to all defs
                defs = [d for d in self.rd.by_name.get(nm, [])]
            forms = sorted({self._def_form(d, depth) for d in defs})
            if len(forms) == 1:
                return forms[0]
            return 'PHI(' + '|'.join(forms) + ')'
        q = self.model.resolve(e, self.func.module, self.func)
        if q is not None:
            cv = self._module_constant(q)
            return cv if cv is not None else q
        # free variable of an enclosing function (named by the caller when a closure is read in its enclosing function's terms)
        if nm in self.param_map:
            return self.param_map[nm]
        return f"FREE:{nm}"

    def _module_constant(self, q: str) -> t.Optional[str]:
        """String constants at module level (PANE_INFO = '__pane_info__') are replaced by their value."""
        if q in self._const_cache:
            return self._const_cache[q]
        out = None
        if q.startswith('pane.'):
            mod, _, name = q.rpartition('.')
            m = self.model.module_of(mod)
            if m is not None:
                v = m.assign_values.get(name)
                if isinstance(v, ast.Constant) and isinstance(v.value, str):
                    out = repr(v.value)
        self._const_cache[q] = out
        return out

    def _def_form(self, d: Def, depth: int) -> str:
        if depth > MAX_DEPTH or d.id in self._visiting:
            return f"LOOP({d.name})"
        self._visiting.add(d.id)
        try:
            return self._def_form1(d, depth)
        finally:
            self._visiting.discard(d.id)

    def _def_form1(self, d: Def, depth: int) -> str:
        if d.kind == 'param':
            return self.param_map.get(d.name, f'${d.name}')
        if d.kind in ('assign', 'walrus'):
            v = d.value
            if d.path:
                return self._project(v, d.path, d.node, depth + 1)
            if self._is_self_update(d):
                # ``x = f(x)``-style rebinding of the same name through a transparent wrapper
                pass
            return self.expr(v, d.node, None, depth + 1)
        if d.kind == 'for':
            return self.iter_elem(d.value, d.path, d.node, {}, depth + 1)
        if d.kind == 'with':
            return f"CTX({self.expr(d.value, d.node, None, depth + 1)})"
        if d.kind == 'handler':
            return 'EXC'
        if d.kind == 'def':
            # (remembered with the normaliser of the function it is defined in: when the closure is handed to an inlined helper
            #  and called there, its body is read in this function's terms)
            reg = self.model.__dict__.setdefault('_closure_registry', {})
            g_ = self.model.functions.get(f"{self.func.qualname}.{d.name}")
            if g_ is not None:
                prev_ = reg.get(d.name)
                # (a name used for closures of several functions is not resolved through the registry)
                reg[d.name] = (g_, self) if prev_ is None or (prev_ and prev_[0] is g_) else ()
            return f"FUNC:{d.name}"
        if d.kind == 'import':
            q = self.func.local_imports.get(d.name) or self.func.module.imports.get(d.name)
            return self.model.canonical(q) if q else f"IMPORT:{d.name}"
        if d.kind == 'aug':
            return f"AUG({d.name})"
        if d.kind == 'del':
            return 'DELETED'
        return f"?{d.name}"

    @staticmethod
    def _is_self_update(d: Def) -> bool:
        return False

    def _project(self, v: t.Optional[ast.AST], path: t.Tuple[int, ...], node: Node, depth: int) -> str:
        """Normal form of ``v`` destructured at ``path``."""
        if v is None:
            return '?'
        cur: ast.AST = v
        p = list(path)
        while p and isinstance(cur, (ast.Tuple, ast.List)) and 0 <= p[0] < len(cur.elts) \
                and not any(isinstance(x, ast.Starred) for x in cur.elts):
            cur = cur.elts[p.pop(0)]
        if not p:
            return self.expr(cur, node, None, depth)
        # next(iter(X.items()))  ->  the single (key, value) pair of X
        if isinstance(cur, ast.Call) and isinstance(cur.func, ast.Name) and cur.func.id == 'next' and cur.args:
            inner = cur.args[0]
            if isinstance(inner, ast.Call) and isinstance(inner.func, ast.Name) and inner.func.id == 'iter' and inner.args:
                return self.iter_elem(inner.args[0], tuple(p), node, {}, depth)
        base = self.expr(cur, node, None, depth)
        # a helper that returns a tuple display was inlined: project textually
        while p:
            parts = _split_tuple_text(base)
            if parts is None or not (0 <= p[0] < len(parts)):
                break
            base = parts[p.pop(0)]
        return base + ''.join(f".{i}" for i in p)

    def iter_elem(self, it: t.Optional[ast.AST], path: t.Tuple[int, ...], node: Node,
                  bound: t.Dict[str, str], depth: int) -> str:
        """Normal form of the loop variable at ``path`` when iterating over ``it``."""
        if it is None:
            return '?'
        X = lambda x: self.expr(x, node, bound, depth + 1)  # noqa: E731
        p = list(path)
        hr = self.helper_return(it, node, bound, depth)
        if hr is not None and depth < MAX_DEPTH:
            sub, rv, rn = hr
            return sub.iter_elem(rv, path, rn, {}, depth + 1)
        if isinstance(it, ast.Name) and it.id not in bound and self.rd.is_local(it.id) and depth < MAX_DEPTH:
            # a local bound once to the iterable (`positional = _init_converters(...)`): iterate what it was bound to
            defs_ = self.rd.at(node, it.id)
            if len(defs_) == 1 and defs_[0].kind == 'assign' and defs_[0].value is not None and not defs_[0].path \
                    and isinstance(defs_[0].value, (ast.Call, ast.GeneratorExp)):
                return self.iter_elem(defs_[0].value, path, defs_[0].node, {}, depth + 1)
        if isinstance(it, ast.Call):
            fn = it.func
            if isinstance(fn, ast.Attribute) and not it.args:
                if fn.attr == 'items':
                    base = X(fn.value)
                    if p and p[0] == 0:
                        return f"KEY({base})" + _sfx(p[1:])
                    if p and p[0] == 1:
                        return f"VALUE({base})" + _sfx(p[1:])
                    return f"ITEM({base})"
                if fn.attr == 'keys':
                    return f"KEY({X(fn.value)})" + _sfx(p)
                if fn.attr == 'values':
                    return f"VALUE({X(fn.value)})" + _sfx(p)
            if isinstance(fn, ast.Name) and fn.id not in bound and not self.rd.is_local(fn.id):
                if fn.id == 'enumerate' and it.args:
                    if p and p[0] == 0:
                        return f"INDEX({X(it.args[0])})"
                    if p and p[0] == 1:
                        return self.iter_elem(it.args[0], tuple(p[1:]), node, bound, depth + 1)
                    return f"ENUM({X(it.args[0])})"
                if fn.id == 'zip' and it.args:
                    if p and 0 <= p[0] < len(it.args):
                        return self.iter_elem(it.args[p[0]], tuple(p[1:]), node, bound, depth + 1)
                    return 'ZIP(' + ', '.join(X(a) for a in it.args) + ')'
                if fn.id == 'filter' and len(it.args) == 2:
                    return self.iter_elem(it.args[1], tuple(p), node, bound, depth + 1)
                if fn.id in ('reversed', 'sorted', 'list', 'tuple', 'iter') and it.args:
                    return self.iter_elem(it.args[0], tuple(p), node, bound, depth + 1)
                if fn.id == 'range':
                    return 'INDEX(range(' + ', '.join(X(a) for a in it.args) + '))'
                if fn.id == 'map' and len(it.args) == 2:
                    return f"{X(it.args[0])}({self.iter_elem(it.args[1], (), node, bound, depth + 1)})" + _sfx(p)
            if isinstance(fn, ast.Attribute) and fn.attr == 'cast' and len(it.args) == 2 \
                    and self.model.resolve(fn, self.func.module, self.func) == 'typing.cast':
                return self.iter_elem(it.args[1], tuple(p), node, bound, depth + 1)
        if isinstance(it, ast.GeneratorExp) and len(it.generators) >= 1:
            b, _conds = self.comp_bindings(it.generators, node, bound, depth)
            elt: ast.AST = it.elt
            while p and isinstance(elt, ast.Tuple) and 0 <= p[0] < len(elt.elts):
                elt = elt.elts[p.pop(0)]
            return self.expr(elt, node, b, depth + 1) + _sfx(p)
        return f"ELEM({X(it)})" + _sfx(p)

    # ------------------------------------------------------------------ qualified names / calls

    def _qualified(self, e: ast.Attribute, bound: t.Dict[str, str]) -> t.Optional[str]:
        # only when the root name is not a local / bound variable
        root: ast.AST = e
        while isinstance(root, ast.Attribute):
            root = root.value
        if not isinstance(root, ast.Name):
            return None
        if root.id in bound or self.rd.is_local(root.id):
            return None
        q = self.model.resolve(e, self.func.module, self.func)
        if q is not None and (q.split('.')[0] != 'pane' or self._is_module_level(q)):
            cv = self._module_constant(q)
            return cv if cv is not None else q
        return None

    def _is_module_level(self, q: str) -> bool:
        mod, _, name = q.rpartition('.')
        m = self.model.module_of(mod)
        if m is not None:
            return name in m.toplevel or name in m.imports
        # class attribute such as pane.convert.ConverterHandlers.make
        mod2, _, cname = mod.rpartition('.')
        m2 = self.model.module_of(mod2)
        return m2 is not None and cname in m2.toplevel

    def callee(self, c: ast.Call, node: Node, bound: t.Optional[t.Dict[str, str]] = None) -> str:
        return self.expr(c.func, node, bound or {})

    def _call(self, e: ast.Call, node: Node, bound: t.Dict[str, str], depth: int) -> str:
        X = lambda x: self.expr(x, node, bound, depth + 1)  # noqa: E731
        fn = self.expr(e.func, node, bound, depth + 1)
        if fn == 'typing.cast' and len(e.args) == 2:
            return X(e.args[1])
        if isinstance(e.func, ast.Attribute) and e.func.attr == 'copy' and not e.args and not e.keywords:
            return X(e.func.value)
        if fn == 'builtins.dict' and len(e.args) == 1 and not e.keywords:
            return X(e.args[0])      # dict(m) is a shallow copy of a mapping: same content
        if fn in ('builtins.getattr', 'builtins.hasattr') and len(e.args) >= 2:
            name = X(e.args[1])
            if name.startswith("'") and name.endswith("'") and name[1:-1].isidentifier():
                if fn == 'builtins.getattr' and len(e.args) == 2:
                    return f"{X(e.args[0])}.{name[1:-1]}"
                if fn == 'builtins.getattr':
                    return f"getattr({X(e.args[0])}.{name[1:-1]}, {X(e.args[2])})"
                return f"hasattr({X(e.args[0])}.{name[1:-1]})"
        if fn == 'builtins.isinstance' and len(e.args) == 2:
            return f"isinstance({X(e.args[0])}, {self.class_set(e.args[1], node, bound, depth)})"
        if fn == 'builtins.issubclass' and len(e.args) == 2:
            return f"issubclass({X(e.args[0])}, {self.class_set(e.args[1], node, bound, depth)})"
        # simple (branch-and-return only) helper methods of the same class are inlined: self.helper(args)
        if isinstance(e.func, ast.Attribute) and isinstance(e.func.value, ast.Name) and self.func.cls is not None \
                and e.func.value.id in self.func.params[:1] and not e.keywords \
                and not any(isinstance(a, ast.Starred) for a in e.args):
            inl = self._inline_simple_helper(e.func.attr, [X(a) for a in e.args], depth)
            if inl is not None:
                return inl
        # simple module-level helpers of the package (branch-and-return only) are inlined as well
        if fn.startswith('pane.') and fn in self.model.functions and not e.keywords and not any(isinstance(a, ast.Starred) for a in e.args):
            inl = self._inline_simple_function(self.model.functions[fn], [X(a) for a in e.args], depth)
            if inl is not None:
                return inl
        # a closure defined once in this function, one `return <expr>` long: its body with the arguments substituted; free variables
        # are read in the enclosing function's own terms (its parameters keep their names)
        if (fn.startswith('FUNC:') or fn.startswith('FREE:')) and isinstance(e.func, ast.Name) and not e.keywords \
                and not any(isinstance(a, ast.Starred) for a in e.args) and depth < 6:
            g = None
            scope_: t.Optional[FuncInfo] = self.func
            while scope_ is not None and g is None:       # the closure may be a sibling defined in an enclosing function
                g = self.model.functions.get(f"{scope_.qualname}.{e.func.id}")
                scope_ = scope_.parent
            if g is self.func:
                g = None
            if g is not None and isinstance(g.node, ast.FunctionDef) and len(g.params) == len(e.args) and not g.decorators:
                body = [s_ for s_ in g.node.body if not (isinstance(s_, ast.Expr) and isinstance(s_.value, ast.Constant))]
                if len(body) == 1 and isinstance(body[0], ast.Return) and body[0].value is not None:
                    from .cfg import cfg_of
                    pm = dict(self.param_map)
                    for p_ in self.func.params:
                        pm.setdefault(p_, f'${p_}' if p_ not in ('self', 'cls') else p_)
                    pm.update({p_: X(a) for p_, a in zip(g.params, e.args)})
                    gcfg = cfg_of(self.model, g)
                    sub = Normalizer(self.model, g, gcfg, param_map=pm, inline_unique_methods=self.inline_unique_methods, func_hook=self.func_hook)
                    rn = [n_ for n_ in gcfg.live_nodes() if n_.kind == 'return' and n_.ast is not None]
                    if len(rn) == 1:
                        return sub.expr(body[0].value, rn[0], None, depth + 1)
        # unique one-expression helper methods (``field.has_default()``) are inlined
        if self.inline_unique_methods and isinstance(e.func, ast.Attribute) and not e.args and not e.keywords:
            inl = self._inline_unique(e.func.attr, e.func.value, node, bound, depth)
            if inl is not None:
                return inl
        if fn == 'builtins.map' and len(e.args) == 2:
            return f"GEN({X(e.args[0])}({self.iter_elem(e.args[1], (), node, bound, depth + 1)}))"
        args = [X(a) for a in e.args]
        kws = sorted(f"{k.arg}={X(k.value)}" if k.arg else f"**{X(k.value)}" for k in e.keywords)
        if fn.startswith('builtins.'):
            fn = fn[len('builtins.'):]
        if fn.startswith('FUNC:') and not kws and not any(a.startswith('*') for a in args) and depth < 6:
            # a closure of the calling function that reached this call through a parameter of an inlined helper
            got_ = self.model.__dict__.get('_closure_registry', {}).get(fn[5:])
            if got_:
                g, owner = got_
                if isinstance(g.node, ast.FunctionDef) and len(g.params) == len(args) and not g.decorators and g is not self.func:
                    body = [s_ for s_ in g.node.body if not (isinstance(s_, ast.Expr) and isinstance(s_.value, ast.Constant))]
                    if len(body) == 1 and isinstance(body[0], ast.Return) and body[0].value is not None:
                        from .cfg import cfg_of
                        pm = dict(owner.param_map)
                        for p_ in owner.func.params:
                            pm.setdefault(p_, f'${p_}' if p_ not in ('self', 'cls') else p_)
                        pm.update(dict(zip(g.params, args)))
                        gcfg = cfg_of(self.model, g)
                        sub = Normalizer(self.model, g, gcfg, param_map=pm, inline_unique_methods=self.inline_unique_methods, func_hook=self.func_hook)
                        rn = [n_ for n_ in gcfg.live_nodes() if n_.kind == 'return' and n_.ast is not None]
                        if len(rn) == 1:
                            return sub.expr(body[0].value, rn[0], None, depth + 1)
        if fn.startswith('LAMBDA(') and fn.endswith(')') and not kws and len(args) <= 3 and _balanced(fn[7:-1]) \
                and not any(a.startswith('*') for a in args):
            # an immediately applied lambda (a callback handed to an inlined helper): beta-reduce
            body = fn[7:-1]
            if not re.search(r'λ(\d+)', body) or max(int(x) for x in re.findall(r'λ(\d+)', body)) < len(args):
                for i, a in enumerate(args):
                    body = re.sub(r'λ%d(?!\d)' % i, a.replace('\\', '\\\\'), body)
                return body
        return f"{fn}({', '.join(args + kws)})"

    def class_set(self, e: ast.expr, node: Node, bound: t.Dict[str, str], depth: int) -> str:
        elts = list(e.elts) if isinstance(e, ast.Tuple) else [e]
        # a module-level constant holding the tuple of classes (`_STRING_LIKE = (str, bytes, bytearray)`) stands for its members
        for _round in range(3):
            flat: t.List[ast.expr] = []
            for x in elts:
                v = self.func.module.assign_values.get(x.id) if isinstance(x, ast.Name) and not self.cfg.reaching().is_local(x.id) else None
                if isinstance(v, ast.Tuple) and v.elts and all(isinstance(y, (ast.Name, ast.Attribute)) for y in v.elts):
                    flat.extend(v.elts)
                else:
                    flat.append(x)
            if len(flat) == len(elts):
                break
            elts = flat
        names = sorted({_canon_class(self.expr(x, node, bound, depth + 1)) for x in elts})
        return '{' + ', '.join(names) + '}'

    def helper_return(self, e: t.Optional[ast.AST], node: t.Optional[Node] = None, bound: t.Optional[t.Dict[str, str]] = None,
                      depth: int = 0) -> t.Optional[t.Tuple['Normalizer', ast.expr, Node]]:
        got = self._helper_return_method(e)
        if got is not None or node is None:
            return got
        # a private module-level function of one `return <expr>`, its parameters named by the caller's arguments
        if not (isinstance(e, ast.Call) and not e.keywords and not any(isinstance(a, ast.Starred) for a in e.args)):
            return None
        q = self.model.resolve(e.func, self.func.module, self.func if isinstance(self.func.node, ast.FunctionDef) else None)
        f = self.model.functions.get(q or '')
        if f is None or f is self.func or f.cls is not None or f.parent is not None or not isinstance(f.node, ast.FunctionDef) \
                or not f.name.startswith('_') or len(f.params) != len(e.args) or f.decorators:
            return None
        body = [st for st in f.node.body if not (isinstance(st, ast.Expr) and isinstance(st.value, ast.Constant))]
        if len(body) != 1 or not isinstance(body[0], ast.Return) or not isinstance(body[0].value, (ast.GeneratorExp, ast.ListComp, ast.Call)):
            return None
        from .cfg import cfg_of
        sub_cfg = cfg_of(self.model, f)
        pm = {p_: self.expr(a, node, bound or {}, depth + 1) for p_, a in zip(f.params, e.args)}
        sub = Normalizer(self.model, f, sub_cfg, param_map=pm, inline_unique_methods=self.inline_unique_methods)
        rn = [n for n in sub_cfg.nodes if n.kind == 'return' and n.ast is not None]
        if len(rn) != 1:
            return None
        return sub, body[0].value, rn[0]

    def _helper_return_method(self, e: t.Optional[ast.AST]) -> t.Optional[t.Tuple['Normalizer', ast.expr, Node]]:
        """``self.m()`` where ``m`` is a zero-argument helper of the same class consisting of one ``return <expr>``:
        (normaliser of the helper, the returned expression, its node).  Lets loop provenance and comprehension
        guards look through helpers such as ``def _init_converters(self): return (c for f, c in zip(...) if f.init)``."""
        if not (isinstance(e, ast.Call) and isinstance(e.func, ast.Attribute) and isinstance(e.func.value, ast.Name)
                and not e.args and not e.keywords and self.func.cls is not None and e.func.value.id in self.func.params[:1]):
            return None
        f = self.model.find_method(self.func.cls.qualname, e.func.attr)
        if f is None or not isinstance(f.node, ast.FunctionDef) or f is self.func or len(f.params) != 1:
            return None
        body = [st for st in f.node.body if not (isinstance(st, ast.Expr) and isinstance(st.value, ast.Constant))]
        if len(body) != 1 or not isinstance(body[0], ast.Return) or body[0].value is None:
            return None
        from .cfg import cfg_of
        sub_cfg = cfg_of(self.model, f)
        sub = Normalizer(self.model, f, sub_cfg, param_map={f.params[0]: 'self'}, inline_unique_methods=self.inline_unique_methods)
        rn = [n for n in sub_cfg.nodes if n.kind == 'return' and n.ast is not None]
        if len(rn) != 1:
            return None
        return sub, body[0].value, rn[0]

    def _inline_simple_function(self, f: FuncInfo, args: t.List[str], depth: int) -> t.Optional[str]:
        if depth > 6 or f is self.func or f.cls is not None or not isinstance(f.node, ast.FunctionDef) or f.parent is not None:
            return None
        if not f.name.startswith('_'):
            return None      # public functions are anchors of the rules (data_is_sequence, rename_field, ...): kept by name
        if f.decorators:
            return None
        return self._inline_body(f, dict(zip(f.params, args)) if len(f.params) == len(args) else None, depth)

    def _inline_body(self, f: FuncInfo, pm: t.Optional[t.Dict[str, str]], depth: int) -> t.Optional[str]:
        if pm is None:
            return None

        def simple(body: t.Sequence[ast.stmt]) -> bool:
            for st in body:
                if isinstance(st, ast.Expr) and isinstance(st.value, ast.Constant):
                    continue
                if isinstance(st, ast.Pass):
                    continue
                if isinstance(st, ast.Return) and st.value is not None:
                    continue
                if isinstance(st, ast.Raise):
                    continue          # a path that raises yields no value
                if isinstance(st, ast.If) and simple(st.body) and simple(st.orelse):
                    continue
                if isinstance(st, ast.Assign) and len(st.targets) == 1 and isinstance(st.targets[0], ast.Name):
                    continue
                if isinstance(st, ast.AnnAssign) and isinstance(st.target, ast.Name) and st.value is not None:
                    continue
                return False
            return True
        if not simple(f.node.body):  # type: ignore[union-attr]
            return None
        rets = [n for n in ast.walk(f.node) if isinstance(n, ast.Return)]
        if not rets or len(rets) > 4:
            return None
        from .cfg import cfg_of
        if self.func_hook is not None:
            f2 = self.func_hook(f, pm)
            sub_cfg = cfg_of(self.model, f) if f2 is f else CFG(self.model, f2)
            f = f2
        else:
            sub_cfg = cfg_of(self.model, f)
        sub = Normalizer(self.model, f, sub_cfg, param_map=pm, inline_unique_methods=self.inline_unique_methods, func_hook=self.func_hook)
        forms = set()
        for n in sub_cfg.live_nodes():
            if n.kind == 'return' and n.ast is not None and n.ast.value is not None:
                forms.add(sub.expr(n.ast.value, n, None, depth + 1))
        if not forms:
            return None
        return next(iter(forms)) if len(forms) == 1 else 'PHI(' + '|'.join(sorted(forms)) + ')'

    def _inline_simple_helper(self, mname: str, args: t.List[str], depth: int) -> t.Optional[str]:
        """``self.m(args)`` where ``m`` consists only of (nested) ``if`` statements and ``return <expr>`` statements:
        the normal form is the set of its possible results with the arguments substituted."""
        if depth > 6 or self.func.cls is None:
            return None
        f = self.model.find_method(self.func.cls.qualname, mname)
        if f is None or not isinstance(f.node, ast.FunctionDef) or f is self.func or mname in ('try_convert', 'collect_errors', 'convert', 'into_data'):
            return None

        def simple(body: t.Sequence[ast.stmt]) -> bool:
            for st in body:
                if isinstance(st, ast.Expr) and isinstance(st.value, ast.Constant):
                    continue
                if isinstance(st, ast.Pass):
                    continue
                if isinstance(st, ast.Return) and st.value is not None:
                    continue
                if isinstance(st, ast.Raise):
                    continue          # a path that raises yields no value
                if isinstance(st, ast.If) and simple(st.body) and simple(st.orelse):
                    continue
                if isinstance(st, ast.Assign) and len(st.targets) == 1 and isinstance(st.targets[0], ast.Name):
                    continue
                if isinstance(st, ast.AnnAssign) and isinstance(st.target, ast.Name) and st.value is not None:
                    continue
                return False
            return True
        if not simple(f.node.body):
            return None
        rets = [n for n in ast.walk(f.node) if isinstance(n, ast.Return)]
        if not rets or len(rets) > 4:
            return None
        # no calls to sub-converters / opaque callables hidden inside: only pure expression helpers
        for c in ast.walk(f.node):
            if isinstance(c, ast.Call) and isinstance(c.func, ast.Attribute) and c.func.attr in ('try_convert', 'collect_errors', 'convert'):
                return None
        params = f.params
        is_static = any(isinstance(d, ast.Name) and d.id == 'staticmethod' for d in f.decorators)
        pm: t.Dict[str, str] = {}
        if not is_static and params:
            pm[params[0]] = 'self'
            params = params[1:]
        if len(params) != len(args):
            return None
        for p_, a in zip(params, args):
            pm[p_] = a
        from .cfg import cfg_of
        if self.func_hook is not None:
            f2 = self.func_hook(f, pm)
            sub_cfg = cfg_of(self.model, f) if f2 is f else CFG(self.model, f2)
            f = f2
        else:
            sub_cfg = cfg_of(self.model, f)
        sub = Normalizer(self.model, f, sub_cfg, param_map=pm, inline_unique_methods=self.inline_unique_methods, func_hook=self.func_hook)
        forms = set()
        for n in sub_cfg.live_nodes():
            if n.kind == 'return' and n.ast is not None and n.ast.value is not None:
                forms.add(sub.expr(n.ast.value, n, None, depth + 1))
        if not forms:
            return None
        if len(forms) == 1:
            return next(iter(forms))
        return 'PHI(' + '|'.join(sorted(forms)) + ')'

    def _inline_unique(self, mname: str, recv: ast.expr, node: Node, bound: t.Dict[str, str], depth: int) -> t.Optional[str]:
        owners = [c for c in self.model.classes.values() if mname in c.methods]
        if len(owners) != 1:
            return None
        f = owners[0].methods[mname]
        fn = f.node
        if not isinstance(fn, ast.FunctionDef) or len(f.params) != 1:
            return None
        body = [s for s in fn.body if not (isinstance(s, ast.Expr) and isinstance(s.value, ast.Constant))]
        if len(body) > 1 and isinstance(body[-1], ast.Return) and body[-1].value is not None \
                and all(isinstance(s, ast.Assign) and len(s.targets) == 1 and isinstance(s.targets[0], ast.Name) for s in body[:-1]):
            # temporaries assigned once (`no_default = A and B` / `return not no_default`): substituted into the returned expression
            import copy as _copy
            names = [t.cast(ast.Name, t.cast(ast.Assign, s).targets[0]).id for s in body[:-1]]
            if len(set(names)) == len(names):
                env_: t.Dict[str, ast.expr] = {}

                class _Sub(ast.NodeTransformer):
                    def visit_Name(self, node: ast.Name) -> ast.AST:
                        if isinstance(node.ctx, ast.Load) and node.id in env_:
                            return _copy.deepcopy(env_[node.id])
                        return node
                for s in body[:-1]:
                    env_[t.cast(ast.Name, t.cast(ast.Assign, s).targets[0]).id] = t.cast(ast.expr, _Sub().visit(_copy.deepcopy(t.cast(ast.Assign, s).value)))
                ret = ast.Return(value=t.cast(ast.expr, _Sub().visit(_copy.deepcopy(body[-1].value))))
                ast.copy_location(ret, body[-1])
                ast.fix_missing_locations(ret)
                body = [ret]
        if len(body) != 1 or not isinstance(body[0], ast.Return) or body[0].value is None:
            return None
        if any(isinstance(x, ast.Call) for x in ast.walk(body[0].value)):
            return None
        # normalise the body with ``self`` bound to the receiver
        from .cfg import cfg_of
        sub = Normalizer(self.model, f, cfg_of(self.model, f), param_map={f.params[0]: self.expr(recv, node, bound, depth + 1)},
                         inline_unique_methods=False)
        rn = [n for n in sub.cfg.nodes if n.kind == 'return' and n.ast is not None]
        if len(rn) != 1:
            return None
        return sub._lit_str(body[0].value, rn[0], {}, 0)

    # ------------------------------------------------------------------ literals

    def literal(self, test: ast.expr, node: Node, bound: t.Optional[t.Dict[str, str]] = None, depth: int = 0) -> t.Tuple[str, bool]:
        """Atomic condition -> (atom, positive).  The condition is true iff atom == positive."""
        bound = bound or {}
        X = lambda x: self.expr(x, node, bound, depth + 1)  # noqa: E731
        if isinstance(test, ast.UnaryOp) and isinstance(test.op, ast.Not):
            a, pos = self.literal(test.operand, node, bound, depth + 1)
            return a, not pos
        if isinstance(test, ast.NamedExpr):
            return self.literal(test.value, node, bound, depth + 1)
        if isinstance(test, ast.Compare) and len(test.ops) == 1:
            op = test.ops[0]
            L, R = test.left, test.comparators[0]
            ln = _len_arg(L)
            rn = _len_arg(R)
            # len(x) <op> const
            if ln is not None and isinstance(R, ast.Constant) and isinstance(R.value, int):
                tv = _len_truth(op, R.value, False)
                if tv is not None:
                    return f"TRUTHY({X(ln)})", tv
            if rn is not None and isinstance(L, ast.Constant) and isinstance(L.value, int):
                tv = _len_truth(op, L.value, True)
                if tv is not None:
                    return f"TRUTHY({X(rn)})", tv
            l, r = X(L), X(R)
            if isinstance(op, (ast.Eq, ast.NotEq)):
                a, b = sorted((l, r))
                return f"{a} == {b}", isinstance(op, ast.Eq)
            if isinstance(op, (ast.Is, ast.IsNot)):
                a, b = sorted((l, r))
                return f"{a} is {b}", isinstance(op, ast.Is)
            if isinstance(op, (ast.In, ast.NotIn)):
                return f"{l} in {r}", isinstance(op, ast.In)
            if isinstance(op, ast.Lt):
                return f"{l} < {r}", True
            if isinstance(op, ast.Gt):
                return f"{r} < {l}", True
            if isinstance(op, ast.LtE):      # l <= r  ==  not (r < l)
                return f"{r} < {l}", False
            if isinstance(op, ast.GtE):      # l >= r  ==  not (l < r)
                return f"{l} < {r}", False
        if isinstance(test, ast.Call):
            la = _len_arg(test)
            if la is not None:
                return f"TRUTHY({X(la)})", True
            s = self.expr(test, node, bound, depth + 1)
            if s.startswith('not '):
                return s[4:], False
            return s, True
        if isinstance(test, ast.Constant):
            return repr(bool(test.value)), True
        if isinstance(test, ast.Name) and test.id not in bound and depth < 8 and self.rd.is_local(test.id):
            # a local flag defined once by a comparison / negation / isinstance test: the literal of that expression
            defs = self.rd.at(node, test.id)
            if len(defs) == 1 and defs[0].kind == 'assign' and defs[0].value is not None and not defs[0].path:
                dv = defs[0].value
                if isinstance(dv, ast.Compare) or (isinstance(dv, ast.UnaryOp) and isinstance(dv.op, ast.Not)) \
                        or (isinstance(dv, ast.Call) and isinstance(dv.func, ast.Name) and dv.func.id in ('isinstance', 'issubclass', 'hasattr', 'callable')):
                    return self.literal(t.cast(ast.expr, dv), defs[0].node, bound, depth + 1)
        s = self.expr(test, node, bound, depth + 1)
        if s.startswith('not '):
            return s[4:], False
        if isinstance(test, (ast.Name, ast.Attribute, ast.Subscript)):
            return f"TRUTHY({s})", True
        return s, True


def _balanced(text: str) -> bool:
    depth = 0
    for ch in text:
        if ch in '([{':
            depth += 1
        elif ch in ')]}':
            depth -= 1
            if depth < 0:
                return False
    return depth == 0


_CTX_BUSY: t.Set[str] = set()


def _context_params(model: Model, func: FuncInfo, params: t.Sequence[str]) -> t.Dict[str, str]:
    """Private helper methods are analysed in the context of their callers: a parameter that receives the same normal form
    at every ``self.helper(...)`` call site of the class is named by that form (so the input value stays ``VAL`` inside an
    extracted helper, whatever position it is passed in).  Parameters whose call sites disagree keep ``$name``."""
    cache: t.Dict[str, t.Dict[str, str]] = model.__dict__.setdefault('_ctx_param_cache', {})
    if func.qualname in cache:
        return cache[func.qualname]
    if func.qualname in _CTX_BUSY or func.cls is None:
        return {}
    _CTX_BUSY.add(func.qualname)
    try:
        from .cfg import cfg_of
        forms: t.Dict[str, t.Set[str]] = {p: set() for p in params}
        sites = 0
        owners = [c for c in model.classes.values() if c is func.cls or model.is_subclass(c.qualname, func.cls.qualname)]
        for c in owners:
            for g in c.methods.values():
                if g is func or not isinstance(g.node, ast.FunctionDef) or not g.params:
                    continue
                if model.find_method(c.qualname, func.name) is not func:
                    continue
                calls = [x for x in ast.walk(g.node) if isinstance(x, ast.Call) and isinstance(x.func, ast.Attribute)
                         and x.func.attr == func.name and isinstance(x.func.value, ast.Name) and x.func.value.id == g.params[0]
                         and model.enclosing_function(x) is g]
                if not calls:
                    continue
                gcfg = cfg_of(model, g)
                gnz = Normalizer(model, g, gcfg)
                for call in calls:
                    n = gcfg.node_of(call)
                    if n is None or any(isinstance(a, ast.Starred) for a in call.args) or any(k.arg is None for k in call.keywords):
                        continue
                    sites += 1
                    bound = {p: a for p, a in zip(params, call.args)}
                    bound.update({k.arg: k.value for k in call.keywords if k.arg in forms})
                    for p in params:
                        if p in bound:
                            forms[p].add(gnz.expr(bound[p], n))
                        else:
                            forms[p].add('?default')
        out: t.Dict[str, str] = {}
        if sites:
            for i, p in enumerate(params):
                fs = forms[p]
                if len(fs) == 1 and '?default' not in fs:
                    out[p] = next(iter(fs))
                else:
                    out[p] = f'${p}'
        cache[func.qualname] = out
        return out
    finally:
        _CTX_BUSY.discard(func.qualname)


def _split_tuple_text(s: str) -> t.Optional[t.List[str]]:
    """Elements of a normal form that is a parenthesised tuple display `(a, b, ...)`, else None."""
    if not (s.startswith('(') and s.endswith(')')):
        return None
    depth = 0
    parts: t.List[str] = []
    cur = ''
    quote: t.Optional[str] = None
    for i, ch in enumerate(s[1:-1]):
        if quote:
            cur += ch
            if ch == quote:
                quote = None
            continue
        if ch in '\'"':
            quote = ch
            cur += ch
            continue
        if ch in '([{':
            depth += 1
        elif ch in ')]}':
            depth -= 1
            if depth < 0:
                return None          # the outer parentheses do not match each other
        if ch == ',' and depth == 0:
            parts.append(cur.strip())
            cur = ''
        else:
            cur += ch
    if depth != 0 or quote:
        return None
    if cur.strip():
        parts.append(cur.strip())
    elif not parts:
        return None
    return parts if (len(parts) > 1 or s[1:-1].rstrip().endswith(',')) else None


def _sfx(p: t.Sequence[int]) -> str:
    return ''.join(f".{i}" for i in p)


def _target_paths(tgt: ast.AST, path: t.Tuple[int, ...] = ()) -> t.Iterator[t.Tuple[str, t.Tuple[int, ...]]]:
    if isinstance(tgt, ast.Name):
        yield tgt.id, path
    elif isinstance(tgt, (ast.Tuple, ast.List)):
        for i, e in enumerate(tgt.elts):
            yield from _target_paths(e, path + (i,))
    elif isinstance(tgt, ast.Starred):
        yield from _target_paths(tgt.value, path + (-1,))


def _len_arg(e: ast.AST) -> t.Optional[ast.expr]:
    if isinstance(e, ast.Call) and isinstance(e.func, ast.Name) and e.func.id == 'len' and len(e.args) == 1 and not e.keywords:
        return e.args[0]
    return None


def _len_truth(op: ast.cmpop, k: int, swapped: bool) -> t.Optional[bool]:
    """``len(x) <op> k`` (or ``k <op> len(x)`` when swapped) as a statement about TRUTHY(x), if it is one."""
    if swapped:
        flip = {ast.Lt: ast.Gt, ast.Gt: ast.Lt, ast.LtE: ast.GtE, ast.GtE: ast.LtE}
        for a, b in flip.items():
            if isinstance(op, a):
                op = b()
                break
    if isinstance(op, ast.Eq) and k == 0:
        return False
    if isinstance(op, ast.NotEq) and k == 0:
        return True
    if isinstance(op, ast.Gt) and k == 0:
        return True
    if isinstance(op, ast.GtE) and k == 1:
        return True
    if isinstance(op, ast.Lt) and k == 1:
        return False
    if isinstance(op, ast.LtE) and k == 0:
        return False
    return None


_CLASS_CANON = {
    # typing aliases that are the same runtime ABC for isinstance / issubclass purposes
    'typing.Sequence': 'collections.abc.Sequence',
    'typing.MutableSequence': 'collections.abc.MutableSequence',
    'typing.Mapping': 'collections.abc.Mapping',
    'typing.MutableMapping': 'collections.abc.MutableMapping',
    'typing.Iterable': 'collections.abc.Iterable',
    'typing.Iterator': 'collections.abc.Iterator',
    'typing.Set': 'builtins.set',
    'typing.AbstractSet': 'collections.abc.Set',
    'typing.MutableSet': 'collections.abc.MutableSet',
    'typing.Tuple': 'builtins.tuple',
    'typing.List': 'builtins.list',
    'typing.Dict': 'builtins.dict',
    'typing.Hashable': 'collections.abc.Hashable',
    'typing.Sized': 'collections.abc.Sized',
    'typing.Collection': 'collections.abc.Collection',
    'typing.Container': 'collections.abc.Container',
    'typing.Callable': 'collections.abc.Callable',
}


def _canon_class(s: str) -> str:
    return _CLASS_CANON.get(s, s)


def canon_class(s: str) -> str:
    return _canon_class(s)
