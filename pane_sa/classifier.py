"""Evaluate a kind classifier (``data_is_sequence`` ...) on abstract worlds, whatever its shape.

The classifier's outcome formula (outcomes.py: early returns, helper calls, ``or`` chains are all the same formula) is a Boolean function
of atoms ``isinstance(VAL, {A, B})``.  A *world* fixes what the value is: a concrete stdlib class (``str``, ``dict``, ``int`` ...), judged
with the interpreter's own ``issubclass`` (as a type checker consults typeshed), or "a plain instance of ABC X and of nothing narrower".
Atoms that are not isinstance tests of the argument are opaque: the answer is 'T' / 'F' only if it is the same for all their values.
"""
from __future__ import annotations

import importlib
import re
import sys
import typing as t

from .model import AnalysisError, FuncInfo, Model
from .outcomes import FALSE, TRUE, Outcomes, truth_table, variables

ABC_UP = {
    'Iterable': [], 'Collection': ['Iterable', 'Sized', 'Container'], 'Sized': [], 'Container': [], 'Reversible': ['Iterable'],
    'Sequence': ['Collection', 'Iterable', 'Reversible', 'Sized', 'Container'],
    'MutableSequence': ['Sequence', 'Collection', 'Iterable', 'Reversible', 'Sized', 'Container'],
    'Mapping': ['Collection', 'Iterable', 'Sized', 'Container'], 'MutableMapping': ['Mapping', 'Collection', 'Iterable', 'Sized', 'Container'],
    'Set': ['Collection', 'Iterable', 'Sized', 'Container'], 'MutableSet': ['Set', 'Collection', 'Iterable', 'Sized', 'Container'],
}


def _resolve(name: str) -> t.Optional[type]:
    name = name.strip()
    for pre in ('typing.', 'typing_extensions.'):
        if name.startswith(pre):
            name = 'collections.abc.' + name[len(pre):]
    mod, _, attr = name.rpartition('.')
    if not mod:
        mod = 'builtins'
    if mod.split('.')[0] not in sys.stdlib_module_names:
        return None        # only the interpreter's own library is consulted; repository code is never imported
    try:
        obj = getattr(importlib.import_module(mod), attr)
    except Exception:       # noqa: BLE001
        return None
    return obj if isinstance(obj, type) else None


class Classifier:
    def __init__(self, model: Model, f: FuncInfo):
        self.f = f
        oc = Outcomes(model, f, {f.params[0]: 'VAL'})
        self.true_f = oc.by_value().get(('return', 'True'), FALSE)
        self.atoms = sorted(variables(self.true_f)) if self.true_f not in (TRUE, FALSE) else []
        self.tests: t.Dict[str, t.List[str]] = {}
        self.opaque: t.List[str] = []
        for a in self.atoms:
            m = re.fullmatch(r'isinstance\(VAL, \{(.*)\}\)', a)
            if m:
                self.tests[a] = [x.strip() for x in m.group(1).split(',') if x.strip()]
            else:
                self.opaque.append(a)

    def _atom_in_world(self, classes: t.List[str], world: t.Union[type, str]) -> t.Optional[bool]:
        out = False
        for c in classes:
            k = _resolve(c)
            if k is None:
                return None
            if isinstance(world, str):
                short = k.__name__
                hit = k is object or (k.__module__ in ('collections.abc', 'typing') and (short == world or short in ABC_UP.get(world, [])))
            else:
                try:
                    hit = issubclass(world, k)
                except TypeError:
                    return None
            out = out or hit
        return out

    def answer(self, world: t.Union[type, str]) -> str:
        """'T' / 'F' if the classifier's answer for every value of that world is fixed, else '?'."""
        if self.true_f == TRUE:
            return 'T'
        if self.true_f == FALSE:
            return 'F'
        on, unknown = [], list(self.opaque)
        for a, classes in self.tests.items():
            v = self._atom_in_world(classes, world)
            if v is None:
                unknown.append(a)
            elif v:
                on.append(a)
        order = on + unknown
        if len(order) > 16:
            raise AnalysisError(f"{self.f.loc()}: classifier over {len(order)} atoms")
        tt = truth_table(self.true_f, order)
        base = (1 << len(on)) - 1
        seen = set()
        for extra in range(1 << len(unknown)):
            seen.add((tt >> (base | (extra << len(on)))) & 1)
        return 'T' if seen == {1} else ('F' if seen == {0} else '?')
