"""Facts about the Converter family shared by several rules: attribute roles, helper closures,
sub-converter call sites, zones."""
from __future__ import annotations

import ast
import typing as t

from .cfg import CFG, Node, cfg_of, walk_no_nested, node_exprs
from .model import AnalysisError, ClassInfo, FuncInfo, Model, unparse
from .norm import Normalizer

CONVERTER = 'pane.converters.Converter'
PI = 'pane.errors.ParseInterrupt'
CONVERT_ERROR = 'pane.errors.ConvertError'
PASS_METHODS = ('try_convert', 'collect_errors')
SUB_METHODS = ('try_convert', 'collect_errors', 'convert', 'into_data')
FAMILY_FLOOR = 18


def family(model: Model) -> t.List[ClassInfo]:
    fam = model.converter_family()
    if len(fam) < FAMILY_FLOOR:
        raise AnalysisError(f"Converter family has {len(fam)} classes, expected at least {FAMILY_FLOOR}: "
                            f"an anchor class vanished or is no longer derived from {CONVERTER}")
    return fam


def subconv_attrs(model: Model, cls: ClassInfo) -> t.Set[str]:
    """Attributes of ``cls`` (incl. inherited) holding a Converter or a container of Converters."""
    out: t.Set[str] = set()
    for q in model.mro(cls.qualname):
        ci = model.classes.get(q)
        if ci is None:
            continue
        for nm, ann in ci.attr_annotations.items():
            if 'Converter[' in unparse(ann) or unparse(ann).endswith('Converter'):
                out.add(nm)
        for mname in ('__init__', '__post_init__'):
            f = ci.methods.get(mname)
            if f is None:
                continue
            for sub in ast.walk(f.node):
                tgt = None
                val = None
                if isinstance(sub, ast.Assign) and len(sub.targets) == 1:
                    tgt, val = sub.targets[0], sub.value
                elif isinstance(sub, ast.AnnAssign) and sub.value is not None:
                    tgt, val = sub.target, sub.value
                    if isinstance(tgt, ast.Attribute) and ('Converter[' in unparse(sub.annotation)):
                        out.add(tgt.attr)
                if isinstance(tgt, ast.Attribute) and isinstance(tgt.value, ast.Name) and tgt.value.id == 'self' and val is not None:
                    for c in ast.walk(val):
                        if isinstance(c, ast.Call) and model.resolve(c.func, f.module, f) == 'pane.convert.make_converter':
                            out.add(tgt.attr)
    return out


def opaque_attrs(model: Model, cls: ClassInfo) -> t.Set[str]:
    """Attributes holding user-supplied callables / types (constructors, predicates, target types)."""
    out: t.Set[str] = set()
    for q in model.mro(cls.qualname):
        ci = model.classes.get(q)
        if ci is None:
            continue
        for nm, ann in ci.attr_annotations.items():
            s = unparse(ann)
            if 'Callable' in s or s.startswith('t.Type[') or s == 'type' or s.startswith('t.Optional[t.Callable'):
                out.add(nm)
        f = ci.methods.get('__init__')
        if f is not None:
            for sub in ast.walk(f.node):
                if isinstance(sub, ast.AnnAssign) and isinstance(sub.target, ast.Attribute):
                    s = unparse(sub.annotation)
                    if 'Callable' in s or s.startswith('t.Type['):
                        out.add(sub.target.attr)
                if isinstance(sub, ast.Assign) and len(sub.targets) == 1 and isinstance(sub.targets[0], ast.Attribute) \
                        and isinstance(sub.targets[0].value, ast.Name) and sub.targets[0].value.id == 'self':
                    # self.ty = ty / self.cls = cls  where the parameter is annotated Type[...] / Callable
                    v = sub.value
                    if isinstance(v, ast.Name):
                        for a in (*f.node.args.args, *f.node.args.kwonlyargs):
                            if a.arg == v.id and a.annotation is not None:
                                s = unparse(a.annotation)
                                if 'Callable' in s or s.startswith('t.Type['):
                                    out.add(sub.targets[0].attr)
    return out


def self_calls(func: FuncInfo) -> t.List[t.Tuple[ast.Call, str]]:
    """Calls of the form self.<name>(...) / Cls.<name>(...) inside ``func`` (not nested defs)."""
    out = []
    if not isinstance(func.node, ast.FunctionDef):
        return out
    selfname = func.params[0] if func.params else 'self'
    for st in func.node.body:
        for sub in walk_no_nested(st):
            if isinstance(sub, ast.Call) and isinstance(sub.func, ast.Attribute) and isinstance(sub.func.value, ast.Name):
                if sub.func.value.id == selfname or (func.cls is not None and sub.func.value.id == func.cls.name):
                    out.append((sub, sub.func.attr))
    return out


def helper_closure(model: Model, cls: ClassInfo, entry: str) -> t.List[FuncInfo]:
    """Entry method plus the self-methods it (transitively) calls, resolved through the MRO."""
    seen: t.Dict[str, FuncInfo] = {}
    work = [entry]
    while work:
        nm = work.pop()
        f = model.find_method(cls.qualname, nm)
        if f is None or f.qualname in seen:
            continue
        if f.cls is not None and f.cls.qualname == CONVERTER and nm != entry:
            # abstract declarations on the base class
            pass
        seen[f.qualname] = f
        for (_c, name) in self_calls(f):
            if name not in SUB_METHODS or True:
                work.append(name)
    # also map()/filter() style references: self._try_convert passed as a function value
    changed = True
    while changed:
        changed = False
        for f in list(seen.values()):
            for sub in ast.walk(f.node):
                if isinstance(sub, ast.Attribute) and isinstance(sub.value, ast.Name) and sub.value.id in ('self', cls.name) \
                        and isinstance(sub.ctx, ast.Load):
                    g = model.find_method(cls.qualname, sub.attr)
                    if g is not None and g.qualname not in seen and isinstance(g.node, ast.FunctionDef):
                        # only when used as a value (not attribute data)
                        seen[g.qualname] = g
                        changed = True
    return sorted(seen.values(), key=lambda f: (f.module.relpath, f.lineno))


class SubCall:
    """A delegation to a sub-converter: ``<recv>.<method>(<arg>)`` with recv rooted at a SUBCONV attribute."""

    def __init__(self, call: ast.Call, method: str, recv: str, arg: str, node: Node, func: FuncInfo):
        self.call = call
        self.method = method
        self.recv = recv
        self.arg = arg
        self.node = node
        self.func = func


def is_subconv_form(recv_form: str, attrs: t.Set[str]) -> bool:
    """Whether a normalised receiver denotes a sub-converter held in one of ``attrs``."""
    s = recv_form
    for wrap in ('ELEM(', 'VALUE(', 'PHI('):
        while s.startswith(wrap):
            s = s[len(wrap):]
    for a in attrs:
        if s.startswith(f'self.{a}'):
            rest = s[len(f'self.{a}'):]
            if rest == '' or rest[0] in '[).|,':
                return True
    return False


def find_subcalls(model: Model, cls: ClassInfo, func: FuncInfo, nz: Normalizer, cfg: CFG,
                  attrs: t.Optional[t.Set[str]] = None) -> t.List[SubCall]:
    attrs = attrs if attrs is not None else subconv_attrs(model, cls)
    out: t.List[SubCall] = []
    for n in cfg.nodes:
        for root in node_exprs(n):
            for sub, bound in walk_with_bindings(root, nz, n):
                if isinstance(sub, ast.Call) and isinstance(sub.func, ast.Attribute) and sub.func.attr in SUB_METHODS:
                    recv = nz.expr(sub.func.value, n, bound)
                    if is_subconv_form(recv, attrs):
                        arg = nz.expr(sub.args[0], n, bound) if sub.args else ''
                        out.append(SubCall(sub, sub.func.attr, recv, arg, n, func))
    return out


def walk_with_bindings(root: ast.AST, nz: Normalizer, node: Node,
                       bound: t.Optional[t.Dict[str, str]] = None) -> t.Iterator[t.Tuple[ast.AST, t.Dict[str, str]]]:
    """Walk an expression (not into nested defs), yielding each sub-node together with the provenance
    bindings of the comprehension / lambda variables in scope at that point."""
    bound = bound or {}
    yield root, bound
    if isinstance(root, (ast.GeneratorExp, ast.ListComp, ast.SetComp, ast.DictComp)):
        b = dict(bound)
        for g in root.generators:
            yield from walk_with_bindings(g.iter, nz, node, b)
            b2, _ = nz.comp_bindings([g], node, b, 0)
            b = b2
            for c in g.ifs:
                yield from walk_with_bindings(c, nz, node, b)
        if isinstance(root, ast.DictComp):
            yield from walk_with_bindings(root.key, nz, node, b)
            yield from walk_with_bindings(root.value, nz, node, b)
        else:
            yield from walk_with_bindings(root.elt, nz, node, b)
        return
    if isinstance(root, ast.Lambda):
        b = dict(bound)
        for i, a in enumerate(root.args.args):
            b[a.arg] = f'λ{i}'
        yield from walk_with_bindings(root.body, nz, node, b)
        return
    if isinstance(root, (ast.FunctionDef, ast.AsyncFunctionDef, ast.ClassDef)):
        return
    # map(f, xs): treat as a call of f on ELEM(xs)
    for ch in ast.iter_child_nodes(root):
        yield from walk_with_bindings(ch, nz, node, bound)


def handler_catches(model: Model, func: FuncInfo, node: Node, cls_qual: str) -> t.Optional[ast.ExceptHandler]:
    """Innermost handler (over the try statements whose body contains ``node``) that catches ``cls_qual``."""
    from .cfg import handler_classes, catches
    for tr in reversed(node.tries):
        for h in tr.handlers:
            hc = handler_classes(model, func, h)
            if hc is None or catches(model, hc, cls_qual):
                return h
    return None


def enclosing_handlers(model: Model, func: FuncInfo, node: Node) -> t.List[t.Tuple[ast.Try, ast.ExceptHandler, t.Optional[t.List[str]]]]:
    from .cfg import handler_classes
    out = []
    for tr in reversed(node.tries):
        for h in tr.handlers:
            out.append((tr, h, handler_classes(model, func, h)))
    return out


def conversion_zone(model: Model) -> t.Dict[str, t.List[FuncInfo]]:
    """class qualname -> functions of try_convert / collect_errors and their helper closure."""
    zone: t.Dict[str, t.List[FuncInfo]] = {}
    for c in family(model):
        fs: t.Dict[str, FuncInfo] = {}
        for entry in PASS_METHODS:
            for f in helper_closure(model, c, entry):
                if f.cls is not None and f.cls.qualname == CONVERTER:
                    continue
                if f.name in ('expected', 'expected_struct', 'expected_tuple', 'tag_expected', 'obj_expected', 'into_data', '_into_data'):
                    continue
                fs[f.qualname] = f
        zone[c.qualname] = sorted(fs.values(), key=lambda f: (f.module.relpath, f.lineno))
    return zone
