#!/usr/bin/env python3
"""Detection matrix (development aid): apply each seeded / regression patch to a scratch worktree of /repo HEAD and run
every registered check on it (in-process). Prints, per patch, which properties report a VIOLATION and by which rules."""
import json, os, subprocess, sys, glob, time
sys.path.insert(0, os.path.dirname(os.path.dirname(os.path.abspath(__file__))))
from concurrent.futures import ProcessPoolExecutor

WT_BASE = '/tmp/pane_matrix_wt'


def sh(cmd):
    return subprocess.run(cmd, shell=True, capture_output=True, text=True)


def run_one(args):
    idx, name, patch = args
    wt = f'{WT_BASE}_{idx % 14}'
    from pane_sa.model import Model, AnalysisError
    from pane_sa.properties import PROPERTIES
    from pane_sa import report
    head = sh('git -C /repo rev-parse HEAD').stdout.strip()
    if not os.path.isdir(wt):
        sh(f'git -C /repo worktree add -q --detach {wt} HEAD')
    sh(f'git -C {wt} checkout -q --detach {head}; git -C {wt} checkout -q -- .; git -C {wt} clean -fdq')
    a = sh(f'git -C {wt} apply {patch}')
    if a.returncode != 0:
        return name, None, 'patch does not apply'
    known = report.load_known()
    out = {}
    try:
        model = Model(wt)
    except Exception as e:
        sh(f'git -C {wt} checkout -q -- .')
        return name, None, f'model error {e}'
    for pid, spec in sorted(PROPERTIES.items()):
        kk = {k['key'] for k in known['known'] if k['property'] == pid}
        rules = set()
        errs = []
        for rule in spec['rules']:
            try:
                rr = rule(model)
            except AnalysisError as e:
                errs.append(str(e)[:80])
                continue
            except Exception as e:
                errs.append(f'INTERNAL {type(e).__name__}: {e}'[:100])
                continue
            for f in rr.findings:
                if f.key not in kk:
                    rules.add(rr.rule)
            if rr.instances < rr.floor:
                errs.append(f'{rr.rule} floor')
        if rules:
            out[pid] = sorted(rules)
        elif errs:
            out[pid] = ['ERR: ' + '; '.join(errs)]
    sh(f'git -C {wt} checkout -q -- .')
    return name, out, ''


def main():
    which = sys.argv[1] if len(sys.argv) > 1 and not sys.argv[1].startswith('--') else 'all'
    jobs = []
    if which in ('all', 'seeded'):
        for d in sorted(glob.glob('/verif/seeded/*/')):
            jobs.append((len(jobs), 'seed ' + os.path.basename(d.rstrip('/')), d + 'patch.diff'))
    if which in ('benign',):
        for p in sorted(glob.glob('/verif/benign/*.diff')):
            jobs.append((len(jobs), 'benign ' + os.path.basename(p)[:-5], p))
    if which in ('all', 'regress'):
        for p in sorted(glob.glob('/verif/regress/*.diff')):
            jobs.append((len(jobs), 'regress ' + os.path.basename(p)[:-5], p))
    t0 = time.time()
    # each worker uses its own worktree; run in batches of 14 so that no two jobs share a worktree at once
    results = []
    for i in range(0, len(jobs), 14):
        with ProcessPoolExecutor(max_workers=14) as ex:
            results += list(ex.map(run_one, jobs[i:i + 14]))
    missed = 0
    for name, out, err in results:
        if out is None:
            print(f'{name:16s} -- {err}')
            continue
        target = name.split()[1].split('-')[0] if name.startswith('seed') else ''
        det = {p: r for p, r in out.items() if not r[0].startswith('ERR')}
        errs = {p: r for p, r in out.items() if r[0].startswith('ERR')}
        flag = ''
        if name.startswith('benign'):
            flag = '  <<< FALSE ALARM' if det or errs else '  silent'
        elif not det:
            flag = '  <<< MISSED'
            missed += 1
        elif target and target not in det:
            flag = f'  (not under {target})'
        print(f"{name:16s} {' '.join(f'{p}[{','.join(r)}]' for p, r in det.items())}{flag}" + (f"  ERRS {errs}" if errs else ''))
    print(f'{len(results)} patches, {missed} missed, {time.time() - t0:.0f}s')
    if '--write-expected' in sys.argv:
        exp = {name: sorted(p for p, r in (out or {}).items() if not r[0].startswith('ERR')) for name, out, _e in results if out is not None}
        path = os.path.join(os.path.dirname(os.path.dirname(os.path.abspath(__file__))), 'selftest_expected.json')
        json.dump(exp, open(path, 'w'), indent=1, sort_keys=True)
        print('wrote', path)
    if '--table' in sys.argv:
        # markdown table for DESIGN.md section 29
        rows = ['| change | breaks | what it does | reported by (property[rules]) |', '|---|---|---|---|']
        fixes = {k['id']: k for k in json.load(open('/verif/known_findings.json'))['fixed']}
        for name, out, _e in results:
            if out is None:
                continue
            det = {p: r for p, r in out.items() if not r[0].startswith('ERR')}
            kind, ident = name.split()
            if kind == 'seed':
                meta = json.load(open(f'/verif/seeded/{ident}/meta.json'))
                what, target = meta.get('summary', '')[:150].replace('|', '/'), ident.split('-')[0]
            else:
                fx = fixes.get('F' + str(int(ident[1:])), {})
                what, target = 'reverse of fix ' + ident + ': ' + fx.get('what', '')[:110].replace('|', '/'), ''
            rows.append(f"| {name} | {target} | {what} | {' '.join(f'{p}[{','.join(r)}]' for p, r in det.items())} |")
        open('/tmp/seed_table.md', 'w').write('\n'.join(rows) + '\n')
        print('wrote /tmp/seed_table.md')
    for i in range(14):
        sh(f'git -C /repo worktree remove --force {WT_BASE}_{i}')


if __name__ == '__main__':
    main()
