#!/usr/bin/env python3
"""Verify candidate seeded mutants (development aid): for each <dir>/{patch.diff,demo.py,meta.json}
 - the patch applies to /repo HEAD (in a scratch worktree),
 - the pinned test-suite still has the 218 stable passes with the patch,
 - demo.py fails with the patch and passes without it.
Usage: verify_seed.py <src_dir> <seed_id>   -> copies to /verif/seeded/<seed_id>/ when all of that holds."""
import json, os, shutil, subprocess, sys, xml.etree.ElementTree as ET

WT = '/tmp/pane_mut_wt'
PY = '/venv/bin/python'


def sh(cmd, **kw):
    return subprocess.run(cmd, shell=True, capture_output=True, text=True, **kw)


def reset():
    head = sh('git -C /repo rev-parse HEAD').stdout.strip()
    if not os.path.isdir(WT):
        sh(f'git -C /repo worktree add -q --detach {WT} HEAD')
    sh(f'git -C {WT} checkout -q --detach {head}; git -C {WT} checkout -q -- .; git -C {WT} clean -fdq')


def suite():
    env = dict(os.environ, PYTHONPATH=WT)
    sh(f'cd {WT} && {PY} -m pytest -q -p no:cacheprovider --timeout=900 --continue-on-collection-errors --junitxml=/tmp/pane_mut_junit.xml', env=env)
    stable = set(json.load(open('/root/.vp/BASELINE.json'))['stable_pass'])
    passed = set()
    for tc in ET.parse('/tmp/pane_mut_junit.xml').getroot().iter('testcase'):
        if not any(c.tag in ('failure', 'error', 'skipped') for c in tc):
            passed.add(f"{tc.get('classname')}::{tc.get('name')}")
    return sorted(stable - passed)


def demo(path):
    env = dict(os.environ, PYTHONPATH=WT)
    r = sh(f'cd {WT} && {PY} {path}', env=env)
    return r.returncode, (r.stdout + r.stderr)[-300:]


def main():
    src, sid = sys.argv[1], sys.argv[2]
    patch = os.path.join(src, 'patch.diff')
    reset()
    a = sh(f'git -C {WT} apply --check {patch}')
    if a.returncode != 0:
        print(f'{sid}: PATCH-DOES-NOT-APPLY {a.stderr.strip()[:200]}')
        return 3
    rc0, out0 = demo(os.path.join(src, 'demo.py'))
    sh(f'git -C {WT} apply {patch}')
    missing = suite()
    rc1, out1 = demo(os.path.join(src, 'demo.py'))
    reset()
    ok = rc0 == 0 and rc1 != 0 and not missing
    print(f"{sid}: clean-demo rc={rc0} patched-demo rc={rc1} stable-tests-missing={len(missing)} -> {'KEEP' if ok else 'REJECT'}")
    if not ok:
        print('   ', out0[-150:] if rc0 else '', out1[-150:] if rc1 == 0 else '', missing[:3])
        return 1
    dst = f'/verif/seeded/{sid}'
    os.makedirs(dst, exist_ok=True)
    shutil.copy(patch, os.path.join(dst, 'patch.diff'))
    shutil.copy(os.path.join(src, 'demo.py'), os.path.join(dst, 'demo.py'))
    meta = json.load(open(os.path.join(src, 'meta.json')))
    meta['verified'] = {
        'repo_head': sh('git -C /repo rev-parse --short HEAD').stdout.strip(),
        'ran': [f'git apply patch.diff (scratch worktree of /repo HEAD)',
                'pinned pytest command of BASELINE.json with the patch: all 218 stable tests pass',
                f'demo.py with the patch: exit {rc1}', f'demo.py without the patch: exit {rc0}'],
        'demo_failure_tail': out1[-300:],
    }
    json.dump(meta, open(os.path.join(dst, 'meta.json'), 'w'), indent=1)
    return 0


if __name__ == '__main__':
    sys.exit(main())
