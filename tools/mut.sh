#!/bin/sh
# tools/mut.sh <patch.diff> [PROP...]: apply a patch to a scratch worktree of /repo HEAD and run checks on it.
# Development aid only (not referenced by MANIFEST.json).
patch="$1"; shift
props="$*"
[ -z "$props" ] && props="all"
wt=${MUT_WT:-/tmp/pane_mut_wt}
if [ ! -d "$wt" ]; then git -C /repo worktree add -q --detach "$wt" HEAD || exit 2; fi
git -C "$wt" checkout -q --detach "$(git -C /repo rev-parse HEAD)" && git -C "$wt" checkout -q -- . && git -C "$wt" clean -fdq
if ! git -C "$wt" apply "$patch"; then echo "PATCH-DOES-NOT-APPLY $patch"; exit 3; fi
cd /verif
for p in $props; do
  out=$(./check "$p" --repo "$wt" --no-write 2>&1); rc=$?
  if [ "$p" = all ]; then echo "$out" | grep -E "^(VIOLATION|ANALYSIS-ERROR|  FINDING)" | cut -c1-260; echo "rc=$rc";
  else echo "== $p rc=$rc"; echo "$out" | grep -E "^(VIOLATION|ANALYSIS-ERROR|  FINDING|KNOWN)" | cut -c1-300; fi
done
git -C "$wt" checkout -q -- .
