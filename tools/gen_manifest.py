#!/usr/bin/env python3
"""Regenerate /verif/MANIFEST.json from the rule registry (development aid)."""
import json, os, sys
sys.path.insert(0, os.path.dirname(os.path.dirname(os.path.abspath(__file__))))
from pane_sa.properties import PROPERTIES, MANIFEST_TEXT, NOT_APPLICABLE

here = os.path.dirname(os.path.dirname(os.path.abspath(__file__)))
props = [json.loads(l) for l in open(os.path.join(here, 'properties.jsonl'))]
checks = []
na = []
for p in props:
    pid = p['id']
    if pid in PROPERTIES:
        mt = MANIFEST_TEXT[pid]
        checks.append({
            'property_id': pid,
            'quick_cmd': f'./check {pid} --tier quick',
            'thorough_cmd': f'./check {pid} --tier thorough',
            'evidence_file': f'/verif/evidence/{pid}.json',
            'replay_cmd_template': f'./check {pid} --replay {{path}}',
            'engine': 'pane_sa',
            'level_claimed': {'category': 'other', 'text': mt['level'], 'design_ref': mt['design_ref']},
            'level_note': mt['note'],
            'technique': mt['technique'],
        })
    else:
        na.append({'property_id': pid, 'reason': NOT_APPLICABLE.get(pid, 'check not implemented yet (work in progress); see DESIGN.md')})
m = {
    'version': 1,
    'setup_cmd': 'true',
    'hooks': {
        'guard': 'HEXANE360_PANE_VERIF',
        'enable': 'none needed: the checks are static analyses that read /repo/pane sources; no hooks or instrumentation are compiled in',
        'baseline_off_cmd': 'cd /repo && /venv/bin/python -m pytest -ra -q -p no:cacheprovider --timeout=900 --continue-on-collection-errors',
        'source_commits': [],
        'add_only': True,
    },
    'engines': [{'name': 'pane_sa', 'path': '/verif/pane_sa', 'serves_properties': sorted(PROPERTIES),
                 'kind_free_text': 'repository-specific static analyser on the stdlib ast module: program model with import/MRO resolution, '
                                   'statement-level CFG with exception edges, dominators / control dependence / reaching definitions, '
                                   'expression normaliser, per-property rule modules; in-memory mutation self-test in the thorough tier'}],
    'checks': checks,
    'notes': 'All checks are static (technique family: static analysis); they parse /repo/pane from the current working tree on every run and '
             'never import or execute it. Each check decides structural necessary conditions of its property (stated in level_claimed.text and '
             'in the evidence explanation), not the runtime behaviour itself. Exit 2 + ANALYSIS-ERROR means an anchor vanished or a construct '
             'is in an unrecognised shape (undecided is never reported as a violation nor as a pass). Genuine defects found on the pinned tree '
             'were repaired by fix: commits in /repo (see known_findings.json "fixed") or are listed there as "known".',
    'not_applicable': na,
}
json.dump(m, open(os.path.join(here, 'MANIFEST.json'), 'w'), indent=1)
print(f"{len(checks)} checks, {len(na)} not applicable")
